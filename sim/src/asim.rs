//! asyncsim — a deterministic executor, clock, timers and in-memory UDP for the `quinn` crate.
//!
//! Everything the async layer can observe goes through three seams quinn already has:
//! `quinn::Runtime` (spawn / timers / clock) and `quinn::AsyncUdpSocket` + `UdpSender`. All
//! tasks — quinn's endpoint and connection drivers as well as the application tasks of the
//! scenario — live in one single-threaded executor whose next runnable task is drawn from the
//! world's chooser; time is virtual and jumps to the next timer or network delivery when nothing
//! is runnable; the network drops, duplicates and delays datagrams by the same chooser.

use std::collections::{BTreeMap, VecDeque};
use std::future::Future;
use std::io;
use std::net::SocketAddr;
use std::pin::Pin;
use std::sync::{Arc, Mutex};
use std::task::{Context, Poll, Wake, Waker};
use std::time::{Duration, Instant};

use quinn::udp::{RecvMeta, Transmit};
use quinn::{AsyncTimer, AsyncUdpSocket, Runtime, UdpSender};

use crate::chooser::{mix, Chooser};
use crate::world::{FaultCounts, Violation};

pub type Ns = u64;
pub const MS: Ns = 1_000_000;

type BoxFut = Pin<Box<dyn Future<Output = ()> + Send>>;

#[derive(Clone, Debug, Default)]
pub struct ANet {
    pub faults: bool,
    pub base_delay: Ns,
    pub jitter: Ns,
    /// x/1000
    pub drop: u32,
    pub dup: u32,
    pub reorder: u32,
    /// x/1000: a send finds the socket not writable once
    pub would_block: u32,
}

struct Delivery {
    src: SocketAddr,
    dst: SocketAddr,
    bytes: Vec<u8>,
    ecn: Option<quinn::udp::EcnCodepoint>,
}

#[derive(Default)]
pub struct SockQ {
    rx: VecDeque<(SocketAddr, Vec<u8>, Option<quinn::udp::EcnCodepoint>)>,
    waker: Option<Waker>,
    open: bool,
}

pub struct TaskMeta {
    pub name: String,
    pub app: bool,
    pub done: bool,
    /// what an application task is currently waiting for (for diagnostics)
    pub op: String,
    pub polls: u64,
}

pub struct St {
    /// real-time instant after which the run is abandoned (campaign wall-clock cap)
    pub deadline: Option<Instant>,
    pub wall_aborted: bool,
    pub now: Ns,
    pub ch: Chooser,
    /// runnable tasks in wake order (choice 0 = the one that has waited longest)
    ready: VecDeque<usize>,
    timers: BTreeMap<u64, (Ns, Option<Waker>)>,
    next_timer: u64,
    net_q: BTreeMap<(Ns, u64), Delivery>,
    seq: u64,
    socks: BTreeMap<SocketAddr, Arc<Mutex<SockQ>>>,
    spawn_q: Vec<(String, bool, BoxFut)>,
    pub metas: Vec<TaskMeta>,
    pub net: ANet,
    pub faults: FaultCounts,
    pub probes: FaultCounts,
    pub violations: Vec<Violation>,
    pub trace: Vec<u64>,
    pub log: Vec<String>,
    pub log_on: bool,
    pub steps: u64,
    pub sig: u64,
    pub dgrams_sent: u64,
}

pub struct Shared {
    pub base: Instant,
    pub st: Mutex<St>,
}

#[derive(Clone)]
pub struct Sim(pub Arc<Shared>);

impl std::fmt::Debug for Sim {
    fn fmt(&self, f: &mut std::fmt::Formatter<'_>) -> std::fmt::Result {
        f.write_str("Sim")
    }
}

struct TaskWaker {
    id: usize,
    sh: Arc<Shared>,
}
impl Wake for TaskWaker {
    fn wake(self: Arc<Self>) {
        self.wake_by_ref()
    }
    fn wake_by_ref(self: &Arc<Self>) {
        let mut s = self.sh.st.lock().unwrap();
        if !s.ready.contains(&self.id) {
            s.ready.push_back(self.id);
        }
    }
}

impl Sim {
    pub fn new(ch: Chooser, log_on: bool) -> Self {
        // a fixed base well away from zero; only differences are ever observable
        let base = Instant::now();
        Sim(Arc::new(Shared {
            base,
            st: Mutex::new(St {
                now: 0,
                deadline: None,
                wall_aborted: false,
                ch,
                ready: VecDeque::new(),
                timers: BTreeMap::new(),
                next_timer: 0,
                net_q: BTreeMap::new(),
                seq: 0,
                socks: BTreeMap::new(),
                spawn_q: Vec::new(),
                metas: Vec::new(),
                net: ANet { base_delay: 5 * MS, ..Default::default() },
                faults: FaultCounts { m: BTreeMap::new() },
                probes: FaultCounts { m: BTreeMap::new() },
                violations: Vec::new(),
                trace: Vec::new(),
                log: Vec::new(),
                log_on,
                steps: 0,
                sig: 0,
                dgrams_sent: 0,
            }),
        }))
    }

    pub fn with<R>(&self, f: impl FnOnce(&mut St) -> R) -> R {
        f(&mut self.0.st.lock().unwrap())
    }

    pub fn instant(&self, ns: Ns) -> Instant {
        self.0.base + Duration::from_nanos(ns)
    }
    fn to_ns(&self, i: Instant) -> Ns {
        i.saturating_duration_since(self.0.base).as_nanos().min(u64::MAX as u128) as Ns
    }

    pub fn violate(&self, kind: &str, detail: String) {
        self.with(|s| {
            if s.violations.is_empty() {
                let (t, step) = (s.now, s.steps);
                s.violations.push(Violation { kind: kind.to_string(), detail, t, step });
            }
        });
    }

    pub fn log(&self, f: impl FnOnce() -> String) {
        self.with(|s| {
            if s.log_on {
                let l = format!("t={} {}", crate::world::fmt_t(s.now), f());
                if std::env::var_os("VERIF_LOG_STDERR").is_some() {
                    eprintln!("{}", l);
                }
                s.log.push(l);
            }
        });
    }

    pub fn trace(&self, h: u64) {
        self.with(|s| {
            let now = s.now;
            s.trace.push(mix(&[now, h]));
        });
    }

    pub fn spawn_app(&self, name: &str, fut: impl Future<Output = ()> + Send + 'static) {
        self.with(|s| s.spawn_q.push((name.to_string(), true, Box::pin(fut))));
    }

    /// an in-memory socket bound to `addr`
    pub fn socket(&self, addr: SocketAddr) -> Box<dyn AsyncUdpSocket> {
        let q = Arc::new(Mutex::new(SockQ { open: true, ..Default::default() }));
        self.with(|s| s.socks.insert(addr, q.clone()));
        Box::new(SimSocket { addr, sim: self.clone(), q })
    }

    fn net_send(&self, src: SocketAddr, t: &Transmit<'_>) {
        let seg = t.segment_size.unwrap_or(t.contents.len().max(1));
        let mut off = 0;
        while off < t.contents.len() {
            let end = (off + seg).min(t.contents.len());
            let bytes = t.contents[off..end].to_vec();
            off = end;
            self.with(|s| {
                s.dgrams_sent += 1;
                let now = s.now;
                let h = mix(&[0x5E4D, now, crate::util::fnv(&bytes), bytes.len() as u64]);
                s.trace.push(h);
                let mut copies = 1;
                let mut extra: Ns = 0;
                if s.net.faults {
                    if s.ch.chance("anet.drop", s.net.drop, 1000) {
                        s.faults.hit("drop");
                        copies = 0;
                    } else if s.ch.chance("anet.dup", s.net.dup, 1000) {
                        s.faults.hit("dup");
                        copies = 2;
                    }
                    if copies > 0 && s.ch.chance("anet.reorder", s.net.reorder, 1000) {
                        s.faults.hit("reorder_hold");
                        extra = s.ch.range_log("anet.hold_us", 1, (s.net.jitter / 1000).max(1)) * 1000;
                    }
                }
                for c in 0..copies {
                    s.seq += 1;
                    let at = now + s.net.base_delay + extra + c as u64 * 1000;
                    let key = (at, s.seq);
                    s.net_q.insert(key, Delivery { src, dst: t.destination, bytes: bytes.clone(), ecn: t.ecn });
                }
                if s.log_on {
                    let l = format!("t={} send {} -> {} {}B x{}", crate::world::fmt_t(now), src, t.destination, bytes.len(), copies);
                    s.log.push(l);
                }
            });
        }
    }

    /// Run until nothing can happen any more (or the limits are hit). Returns false on a limit.
    pub fn run(&self, max_steps: u64, max_ns: Ns) -> bool {
        let mut tasks: Vec<Option<BoxFut>> = Vec::new();
        loop {
            // adopt newly spawned tasks
            let spawned: Vec<(String, bool, BoxFut)> = self.with(|s| std::mem::take(&mut s.spawn_q));
            for (name, app, fut) in spawned {
                let id = tasks.len();
                tasks.push(Some(fut));
                self.with(|s| {
                    s.metas.push(TaskMeta { name, app, done: false, op: String::new(), polls: 0 });
                    s.ready.push_back(id);
                });
            }
            // pick a runnable task
            let pick = self.with(|s| {
                if s.ready.is_empty() {
                    return None;
                }
                let n = s.ready.len() as u32;
                let k = s.ch.choose("asim.pick", n) as usize;
                let id = s.ready.remove(k).unwrap();
                s.steps += 1;
                s.sig = (s.sig ^ (id as u64 + 1)).wrapping_mul(0x100_0000_01B3).rotate_left(17);
                Some(id)
            });
            if let Some(id) = pick {
                if self.with(|s| s.steps > max_steps) {
                    return false;
                }
                if self.with(|s| s.steps % 256 == 0 && s.deadline.is_some_and(|d| Instant::now() > d)) {
                    self.with(|s| s.wall_aborted = true);
                    return false;
                }
                let Some(fut) = tasks[id].as_mut() else { continue };
                let waker = Waker::from(Arc::new(TaskWaker { id, sh: self.0.clone() }));
                let mut cx = Context::from_waker(&waker);
                self.with(|s| s.metas[id].polls += 1);
                // A panic inside quinn (say, a debug assertion in the connection driver) poisons
                // quinn's own mutex: dropping the other tasks would then panic again in their
                // destructors and abort the process. Catch it here, report it, and leak the
                // world instead of unwinding through it.
                let r = match std::panic::catch_unwind(std::panic::AssertUnwindSafe(|| fut.as_mut().poll(&mut cx))) {
                    Ok(r) => r,
                    Err(_) => {
                        let msg = crate::runner::take_last_panic().unwrap_or_else(|| "panic".into());
                        let name = self.with(|s| s.metas[id].name.clone());
                        let loc = msg.rsplit(" at ").next().unwrap_or("").to_string();
                        self.violate(&format!("panic at {}", loc), format!("task {} panicked: {}", name, msg));
                        for t in tasks.drain(..) {
                            std::mem::forget(t);
                        }
                        self.with(|s| {
                            for (_, _, f) in s.spawn_q.drain(..) {
                                std::mem::forget(f);
                            }
                        });
                        return true;
                    }
                };
                if r.is_ready() {
                    tasks[id] = None;
                    self.with(|s| {
                        s.metas[id].done = true;
                        let now = s.now;
                        s.trace.push(mix(&[0xD07E, now, id as u64]));
                    });
                }
                continue;
            }
            if self.with(|s| !s.spawn_q.is_empty()) {
                continue;
            }
            // nothing runnable: advance the clock to the next timer or delivery
            let next = self.with(|s| {
                let t1 = s.timers.values().filter(|(_, w)| w.is_some()).map(|(t, _)| *t).min();
                let t2 = s.net_q.keys().next().map(|k| k.0);
                match (t1, t2) {
                    (None, None) => None,
                    (a, b) => Some(a.unwrap_or(u64::MAX).min(b.unwrap_or(u64::MAX))),
                }
            });
            let Some(t) = next else { return true };
            if t > max_ns {
                return false;
            }
            let mut wake: Vec<Waker> = Vec::new();
            self.with(|s| {
                s.now = s.now.max(t);
                let now = s.now;
                // one delivery at a time (its own scheduling point), else all due timers
                let due_net = s.net_q.keys().next().filter(|k| k.0 <= now).copied();
                if let Some(k) = due_net {
                    let d = s.net_q.remove(&k).unwrap();
                    match s.socks.get(&d.dst) {
                        Some(q) => {
                            let mut q = q.lock().unwrap();
                            if q.open {
                                q.rx.push_back((d.src, d.bytes, d.ecn));
                                if let Some(w) = q.waker.take() {
                                    wake.push(w);
                                }
                            }
                        }
                        None => {}
                    }
                } else {
                    for (_, (dl, w)) in s.timers.iter_mut() {
                        if *dl <= now {
                            if let Some(w) = w.take() {
                                wake.push(w);
                            }
                        }
                    }
                }
            });
            for w in wake {
                w.wake();
            }
        }
    }
}

// ---------------------------------------------------------------------------------------------

#[derive(Debug)]
pub struct SimRuntime(pub Sim);

impl Runtime for SimRuntime {
    fn new_timer(&self, i: Instant) -> Pin<Box<dyn AsyncTimer>> {
        let id = self.0.with(|s| {
            s.next_timer += 1;
            s.next_timer
        });
        Box::pin(SimTimer { id, deadline: self.0.to_ns(i), sim: self.0.clone() })
    }
    fn spawn(&self, future: Pin<Box<dyn Future<Output = ()> + Send>>) {
        self.0.with(|s| s.spawn_q.push(("quinn-driver".to_string(), false, future)));
    }
    fn wrap_udp_socket(&self, _t: std::net::UdpSocket) -> io::Result<Box<dyn AsyncUdpSocket>> {
        Err(io::Error::new(io::ErrorKind::Unsupported, "asyncsim has no real sockets"))
    }
    fn now(&self) -> Instant {
        let ns = self.0.with(|s| s.now);
        self.0.instant(ns)
    }
}

struct SimTimer {
    id: u64,
    deadline: Ns,
    sim: Sim,
}
impl std::fmt::Debug for SimTimer {
    fn fmt(&self, f: &mut std::fmt::Formatter<'_>) -> std::fmt::Result {
        write!(f, "SimTimer({})", self.id)
    }
}
impl AsyncTimer for SimTimer {
    fn reset(mut self: Pin<&mut Self>, i: Instant) {
        self.deadline = self.sim.to_ns(i);
        let (id, dl) = (self.id, self.deadline);
        self.sim.with(|s| {
            if let Some(e) = s.timers.get_mut(&id) {
                e.0 = dl;
            }
        });
    }
    fn poll(self: Pin<&mut Self>, cx: &mut Context<'_>) -> Poll<()> {
        let (id, dl) = (self.id, self.deadline);
        self.sim.with(|s| {
            if s.now >= dl {
                s.timers.remove(&id);
                Poll::Ready(())
            } else {
                s.timers.insert(id, (dl, Some(cx.waker().clone())));
                Poll::Pending
            }
        })
    }
}
impl Drop for SimTimer {
    fn drop(&mut self) {
        let id = self.id;
        self.sim.with(|s| {
            s.timers.remove(&id);
        });
    }
}

struct SimSocket {
    addr: SocketAddr,
    sim: Sim,
    q: Arc<Mutex<SockQ>>,
}
impl std::fmt::Debug for SimSocket {
    fn fmt(&self, f: &mut std::fmt::Formatter<'_>) -> std::fmt::Result {
        write!(f, "SimSocket({})", self.addr)
    }
}
impl AsyncUdpSocket for SimSocket {
    fn create_sender(&self) -> Pin<Box<dyn UdpSender>> {
        Box::pin(SimSender { addr: self.addr, sim: self.sim.clone(), blocked_once: false })
    }
    fn poll_recv(&mut self, cx: &mut Context<'_>, bufs: &mut [io::IoSliceMut<'_>], meta: &mut [RecvMeta]) -> Poll<io::Result<usize>> {
        let mut q = self.q.lock().unwrap();
        if q.rx.is_empty() {
            q.waker = Some(cx.waker().clone());
            return Poll::Pending;
        }
        let mut n = 0;
        while n < bufs.len().min(meta.len()) {
            let Some((src, bytes, ecn)) = q.rx.pop_front() else { break };
            let len = bytes.len().min(bufs[n].len());
            bufs[n][..len].copy_from_slice(&bytes[..len]);
            let mut m = RecvMeta::default();
            m.addr = src;
            m.len = len;
            m.stride = len;
            m.ecn = ecn;
            m.dst_ip = None;
            meta[n] = m;
            n += 1;
        }
        Poll::Ready(Ok(n))
    }
    fn local_addr(&self) -> io::Result<SocketAddr> {
        Ok(self.addr)
    }
    fn max_receive_segments(&self) -> usize {
        1
    }
    fn may_fragment(&self) -> bool {
        false
    }
}
impl Drop for SimSocket {
    fn drop(&mut self) {
        self.q.lock().unwrap().open = false;
    }
}

struct SimSender {
    addr: SocketAddr,
    sim: Sim,
    blocked_once: bool,
}
impl std::fmt::Debug for SimSender {
    fn fmt(&self, f: &mut std::fmt::Formatter<'_>) -> std::fmt::Result {
        write!(f, "SimSender({})", self.addr)
    }
}
impl UdpSender for SimSender {
    fn poll_send(mut self: Pin<&mut Self>, transmit: &Transmit<'_>, cx: &mut Context<'_>) -> Poll<io::Result<()>> {
        // buggify: the socket is not writable right now; it becomes writable at once
        if !self.blocked_once {
            let block = self.sim.with(|s| {
                let p = s.net.would_block;
                let b = s.ch.chance("anet.would_block", p, 1000);
                if b {
                    s.faults.hit("socket_would_block");
                }
                b
            });
            if block {
                self.blocked_once = true;
                cx.waker().wake_by_ref();
                return Poll::Pending;
            }
        }
        self.blocked_once = false;
        self.sim.net_send(self.addr, transmit);
        Poll::Ready(Ok(()))
    }
    fn max_transmit_segments(&self) -> usize {
        4
    }
}

// ---------------------------------------------------------------------------------------------
// helpers for application tasks

/// Poll `fut` at most `n` times (each time it is woken); `None` if it was still pending then —
/// the future is dropped, which is what cancellation means.
pub struct PollN<F> {
    pub fut: Option<Pin<Box<F>>>,
    pub left: u32,
}
impl<F: Future> Future for PollN<F> {
    type Output = Option<F::Output>;
    fn poll(mut self: Pin<&mut Self>, cx: &mut Context<'_>) -> Poll<Self::Output> {
        let this = &mut *self;
        let Some(f) = this.fut.as_mut() else { return Poll::Ready(None) };
        match f.as_mut().poll(cx) {
            Poll::Ready(x) => {
                this.fut = None;
                Poll::Ready(Some(x))
            }
            Poll::Pending => {
                if this.left <= 1 {
                    this.fut = None; // dropped here
                    Poll::Ready(None)
                } else {
                    this.left -= 1;
                    Poll::Pending
                }
            }
        }
    }
}
impl<F> Unpin for PollN<F> {}

pub fn poll_n<F: Future>(fut: F, n: u32) -> PollN<F> {
    PollN { fut: Some(Box::pin(fut)), left: n.max(1) }
}

/// yield to the scheduler once
pub struct YieldNow(pub bool);
impl Future for YieldNow {
    type Output = ();
    fn poll(mut self: Pin<&mut Self>, cx: &mut Context<'_>) -> Poll<()> {
        if self.0 {
            Poll::Ready(())
        } else {
            self.0 = true;
            cx.waker().wake_by_ref();
            Poll::Pending
        }
    }
}

/// sleep on the virtual clock
pub async fn sleep(sim: &Sim, d: Ns) {
    let rt = SimRuntime(sim.clone());
    let at = rt.now() + Duration::from_nanos(d);
    let mut t = rt.new_timer(at);
    std::future::poll_fn(|cx| t.as_mut().poll(cx)).await
}
