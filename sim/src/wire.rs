//! Independent QUIC wire decoder/encoder (RFC 9000, RFC 9221, draft-ietf-quic-ack-frequency)
//! written for the harness. Deliberately shares no code with quinn-proto: the oracles must
//! not judge the implementation with the implementation's own parser.

#[derive(Clone, Copy, Debug, PartialEq, Eq, PartialOrd, Ord, Hash)]
pub enum Space {
    Initial,
    ZeroRtt,
    Handshake,
    OneRtt,
}

impl Space {
    /// packet-number space index (0-RTT and 1-RTT share one)
    pub fn pn_space(self) -> usize {
        match self {
            Space::Initial => 0,
            Space::Handshake => 1,
            Space::ZeroRtt | Space::OneRtt => 2,
        }
    }
    pub fn name(self) -> &'static str {
        match self {
            Space::Initial => "Initial",
            Space::ZeroRtt => "0-RTT",
            Space::Handshake => "Handshake",
            Space::OneRtt => "1-RTT",
        }
    }
}

pub struct Rd<'a> {
    pub b: &'a [u8],
    pub p: usize,
}

#[derive(Debug, Clone, Copy, PartialEq, Eq)]
pub struct Short;

pub type R<T> = Result<T, Short>;

impl<'a> Rd<'a> {
    pub fn new(b: &'a [u8]) -> Self {
        Self { b, p: 0 }
    }
    pub fn left(&self) -> usize {
        self.b.len() - self.p
    }
    pub fn u8(&mut self) -> R<u8> {
        if self.left() < 1 {
            return Err(Short);
        }
        let v = self.b[self.p];
        self.p += 1;
        Ok(v)
    }
    pub fn take(&mut self, n: usize) -> R<&'a [u8]> {
        if self.left() < n {
            return Err(Short);
        }
        let s = &self.b[self.p..self.p + n];
        self.p += n;
        Ok(s)
    }
    pub fn u32(&mut self) -> R<u32> {
        let s = self.take(4)?;
        Ok(u32::from_be_bytes([s[0], s[1], s[2], s[3]]))
    }
    pub fn u64be(&mut self) -> R<u64> {
        let s = self.take(8)?;
        let mut a = [0u8; 8];
        a.copy_from_slice(s);
        Ok(u64::from_be_bytes(a))
    }
    pub fn var(&mut self) -> R<u64> {
        let first = self.u8()?;
        let len = 1usize << (first >> 6);
        let mut v = (first & 0x3f) as u64;
        for _ in 1..len {
            v = (v << 8) | self.u8()? as u64;
        }
        Ok(v)
    }
}

pub fn put_var(out: &mut Vec<u8>, v: u64) {
    if v < 1 << 6 {
        out.push(v as u8);
    } else if v < 1 << 14 {
        out.extend_from_slice(&((v as u16) | 0x4000).to_be_bytes());
    } else if v < 1 << 30 {
        out.extend_from_slice(&((v as u32) | 0x8000_0000).to_be_bytes());
    } else {
        assert!(v < 1 << 62);
        out.extend_from_slice(&(v | 0xC000_0000_0000_0000).to_be_bytes());
    }
}

/// encode with a forced length (1,2,4,8) — non-minimal encodings are legal on the wire
pub fn varint_len(v: u64) -> usize {
    if v < 1 << 6 {
        1
    } else if v < 1 << 14 {
        2
    } else if v < 1 << 30 {
        4
    } else {
        8
    }
}

pub fn put_var_len(out: &mut Vec<u8>, v: u64, len: usize) {
    match len {
        1 => out.push((v & 0x3f) as u8),
        2 => out.extend_from_slice(&(((v & 0x3fff) as u16) | 0x4000).to_be_bytes()),
        4 => out.extend_from_slice(&(((v & 0x3fff_ffff) as u32) | 0x8000_0000).to_be_bytes()),
        _ => out.extend_from_slice(&((v & 0x3fff_ffff_ffff_ffff) | 0xC000_0000_0000_0000).to_be_bytes()),
    }
}

pub fn var_size(v: u64) -> usize {
    if v < 1 << 6 {
        1
    } else if v < 1 << 14 {
        2
    } else if v < 1 << 30 {
        4
    } else {
        8
    }
}

// ------------------------------------------------------------------------------------------
// Headers
// ------------------------------------------------------------------------------------------

#[derive(Clone, Debug, PartialEq, Eq)]
pub enum LongType {
    Initial,
    ZeroRtt,
    Handshake,
    Retry,
}

/// What can be read from a (still header-protected) packet without keys.
#[derive(Clone, Debug)]
pub enum PublicHeader {
    Long {
        ty: LongType,
        version: u32,
        dcid: Vec<u8>,
        scid: Vec<u8>,
        token: Vec<u8>,
        /// total length of this packet inside the datagram (header + length field value)
        packet_len: usize,
        /// offset of the packet-number field
        pn_offset: usize,
    },
    VersionNegotiation {
        dcid: Vec<u8>,
        scid: Vec<u8>,
        versions: Vec<u32>,
    },
    /// short header; dcid length is not self-describing, caller supplies it
    Short { dcid: Vec<u8>, packet_len: usize },
}

/// Parse the cleartext part of the first packet in `b` (QUIC v1 layout).
pub fn public_header(b: &[u8], local_cid_len: usize) -> R<PublicHeader> {
    let mut r = Rd::new(b);
    let first = r.u8()?;
    if first & 0x80 == 0 {
        let dcid = r.take(local_cid_len)?.to_vec();
        return Ok(PublicHeader::Short { dcid, packet_len: b.len() });
    }
    let version = r.u32()?;
    let dl = r.u8()? as usize;
    let dcid = r.take(dl)?.to_vec();
    let sl = r.u8()? as usize;
    let scid = r.take(sl)?.to_vec();
    if version == 0 {
        let mut versions = Vec::new();
        while r.left() >= 4 {
            versions.push(r.u32()?);
        }
        return Ok(PublicHeader::VersionNegotiation { dcid, scid, versions });
    }
    let ty = match (first >> 4) & 3 {
        0 => LongType::Initial,
        1 => LongType::ZeroRtt,
        2 => LongType::Handshake,
        _ => LongType::Retry,
    };
    if ty == LongType::Retry {
        return Ok(PublicHeader::Long {
            ty,
            version,
            dcid,
            scid,
            token: b[r.p..].to_vec(),
            packet_len: b.len(),
            pn_offset: b.len(),
        });
    }
    let token = if ty == LongType::Initial {
        let tl = r.var()? as usize;
        r.take(tl)?.to_vec()
    } else {
        Vec::new()
    };
    let len = r.var()? as usize;
    let pn_offset = r.p;
    if r.left() < len {
        return Err(Short);
    }
    Ok(PublicHeader::Long { ty, version, dcid, scid, token, packet_len: pn_offset + len, pn_offset })
}

/// Walk the coalesced packets of a datagram using only cleartext fields.
/// Returns (offset, header) per packet; stops at the first undecodable one.
pub fn walk_datagram(b: &[u8], local_cid_len: usize) -> Vec<(usize, PublicHeader)> {
    let mut out = Vec::new();
    let mut off = 0;
    while off < b.len() {
        match public_header(&b[off..], local_cid_len) {
            Ok(h) => {
                let len = match &h {
                    PublicHeader::Long { packet_len, .. } => *packet_len,
                    PublicHeader::Short { packet_len, .. } => *packet_len,
                    PublicHeader::VersionNegotiation { .. } => b.len() - off,
                };
                out.push((off, h));
                if len == 0 {
                    break;
                }
                off += len;
            }
            Err(_) => break,
        }
    }
    out
}

/// Header as seen by packet protection (header protection removed): what the tap records.
#[derive(Clone, Debug)]
pub struct PlainHeader {
    pub space: Space,
    pub key_phase: bool,
    pub spin: bool,
    pub dcid: Vec<u8>,
    pub scid: Vec<u8>,
    pub token: Vec<u8>,
    pub version: u32,
    pub pn_len: usize,
    pub truncated_pn: u32,
    pub first: u8,
}

/// Parse an unprotected header. For short headers the DCID is everything between the first
/// byte and the packet number, whose length is given by the low two bits of the first byte.
pub fn plain_header(h: &[u8]) -> R<PlainHeader> {
    let mut r = Rd::new(h);
    let first = r.u8()?;
    let pn_len = (first & 3) as usize + 1;
    if first & 0x80 == 0 {
        if h.len() < 1 + pn_len {
            return Err(Short);
        }
        let dcid = h[1..h.len() - pn_len].to_vec();
        let mut pn = 0u32;
        for b in &h[h.len() - pn_len..] {
            pn = (pn << 8) | *b as u32;
        }
        return Ok(PlainHeader {
            space: Space::OneRtt,
            key_phase: first & 0x04 != 0,
            spin: first & 0x20 != 0,
            dcid,
            scid: Vec::new(),
            token: Vec::new(),
            version: 0,
            pn_len,
            truncated_pn: pn,
            first,
        });
    }
    let version = r.u32()?;
    let dl = r.u8()? as usize;
    let dcid = r.take(dl)?.to_vec();
    let sl = r.u8()? as usize;
    let scid = r.take(sl)?.to_vec();
    let space = match (first >> 4) & 3 {
        0 => Space::Initial,
        1 => Space::ZeroRtt,
        2 => Space::Handshake,
        _ => return Err(Short),
    };
    let token = if space == Space::Initial {
        let tl = r.var()? as usize;
        r.take(tl)?.to_vec()
    } else {
        Vec::new()
    };
    let _len = r.var()?;
    let pnb = r.take(pn_len)?;
    let mut pn = 0u32;
    for b in pnb {
        pn = (pn << 8) | *b as u32;
    }
    Ok(PlainHeader {
        space,
        key_phase: false,
        spin: false,
        dcid,
        scid,
        token,
        version,
        pn_len,
        truncated_pn: pn,
        first,
    })
}

// ------------------------------------------------------------------------------------------
// Frames
// ------------------------------------------------------------------------------------------

#[derive(Clone, Debug, PartialEq, Eq)]
pub enum Frame {
    Padding(usize),
    Ping,
    Ack {
        largest: u64,
        delay: u64,
        /// inclusive ranges, descending
        ranges: Vec<(u64, u64)>,
        ecn: Option<(u64, u64, u64)>,
    },
    ResetStream { id: u64, code: u64, final_size: u64 },
    StopSending { id: u64, code: u64 },
    Crypto { offset: u64, len: usize },
    NewToken { token: Vec<u8> },
    Stream { id: u64, offset: u64, len: usize, fin: bool, data_at: usize },
    MaxData(u64),
    MaxStreamData { id: u64, max: u64 },
    MaxStreams { bidi: bool, max: u64 },
    DataBlocked(u64),
    StreamDataBlocked { id: u64, limit: u64 },
    StreamsBlocked { bidi: bool, limit: u64 },
    NewConnectionId { seq: u64, retire_prior_to: u64, cid: Vec<u8>, reset_token: [u8; 16] },
    RetireConnectionId { seq: u64 },
    PathChallenge(u64),
    PathResponse(u64),
    ConnectionClose { code: u64, frame_type: u64, reason: Vec<u8> },
    ApplicationClose { code: u64, reason: Vec<u8> },
    HandshakeDone,
    AckFrequency { seq: u64, threshold: u64, max_ack_delay: u64, reorder: u64 },
    ImmediateAck,
    Datagram { len: usize, data_at: usize },
}

impl Frame {
    pub fn ack_eliciting(&self) -> bool {
        !matches!(
            self,
            Frame::Padding(_) | Frame::Ack { .. } | Frame::ConnectionClose { .. } | Frame::ApplicationClose { .. }
        )
    }
    pub fn short_name(&self) -> &'static str {
        match self {
            Frame::Padding(_) => "PADDING",
            Frame::Ping => "PING",
            Frame::Ack { .. } => "ACK",
            Frame::ResetStream { .. } => "RESET_STREAM",
            Frame::StopSending { .. } => "STOP_SENDING",
            Frame::Crypto { .. } => "CRYPTO",
            Frame::NewToken { .. } => "NEW_TOKEN",
            Frame::Stream { .. } => "STREAM",
            Frame::MaxData(_) => "MAX_DATA",
            Frame::MaxStreamData { .. } => "MAX_STREAM_DATA",
            Frame::MaxStreams { .. } => "MAX_STREAMS",
            Frame::DataBlocked(_) => "DATA_BLOCKED",
            Frame::StreamDataBlocked { .. } => "STREAM_DATA_BLOCKED",
            Frame::StreamsBlocked { .. } => "STREAMS_BLOCKED",
            Frame::NewConnectionId { .. } => "NEW_CONNECTION_ID",
            Frame::RetireConnectionId { .. } => "RETIRE_CONNECTION_ID",
            Frame::PathChallenge(_) => "PATH_CHALLENGE",
            Frame::PathResponse(_) => "PATH_RESPONSE",
            Frame::ConnectionClose { .. } => "CONNECTION_CLOSE",
            Frame::ApplicationClose { .. } => "APPLICATION_CLOSE",
            Frame::HandshakeDone => "HANDSHAKE_DONE",
            Frame::AckFrequency { .. } => "ACK_FREQUENCY",
            Frame::ImmediateAck => "IMMEDIATE_ACK",
            Frame::Datagram { .. } => "DATAGRAM",
        }
    }
    /// bit index for frame-type-set signatures
    pub fn type_bit(&self) -> u32 {
        match self {
            Frame::Padding(_) => 0,
            Frame::Ping => 1,
            Frame::Ack { .. } => 2,
            Frame::ResetStream { .. } => 3,
            Frame::StopSending { .. } => 4,
            Frame::Crypto { .. } => 5,
            Frame::NewToken { .. } => 6,
            Frame::Stream { .. } => 7,
            Frame::MaxData(_) => 8,
            Frame::MaxStreamData { .. } => 9,
            Frame::MaxStreams { .. } => 10,
            Frame::DataBlocked(_) => 11,
            Frame::StreamDataBlocked { .. } => 12,
            Frame::StreamsBlocked { .. } => 13,
            Frame::NewConnectionId { .. } => 14,
            Frame::RetireConnectionId { .. } => 15,
            Frame::PathChallenge(_) => 16,
            Frame::PathResponse(_) => 17,
            Frame::ConnectionClose { .. } => 18,
            Frame::ApplicationClose { .. } => 19,
            Frame::HandshakeDone => 20,
            Frame::AckFrequency { .. } => 21,
            Frame::ImmediateAck => 22,
            Frame::Datagram { .. } => 23,
        }
    }
}

/// Decode all frames of a plaintext payload. On a malformed frame returns the frames decoded
/// so far and `false`.
pub fn frames(payload: &[u8]) -> (Vec<Frame>, bool) {
    let mut out = Vec::new();
    let mut r = Rd::new(payload);
    while r.left() > 0 {
        match frame(&mut r) {
            Ok(f) => {
                if let (Frame::Padding(n), Some(Frame::Padding(m))) = (&f, out.last_mut()) {
                    *m += *n;
                } else {
                    out.push(f);
                }
            }
            Err(_) => return (out, false),
        }
    }
    (out, true)
}

/// Offset at which the trailing run of PADDING frames of a payload starts (payload length if
/// there is none, or if the payload does not parse).
pub fn trailing_padding_start(payload: &[u8]) -> usize {
    let mut r = Rd::new(payload);
    let mut last_end = 0;
    while r.left() > 0 {
        match frame(&mut r) {
            Ok(Frame::Padding(_)) => {}
            Ok(_) => last_end = r.p,
            Err(_) => return payload.len(),
        }
    }
    last_end
}

fn frame(r: &mut Rd<'_>) -> R<Frame> {
    let ty = r.var()?;
    Ok(match ty {
        0x00 => {
            let mut n = 1;
            while r.left() > 0 && r.b[r.p] == 0 {
                r.p += 1;
                n += 1;
            }
            Frame::Padding(n)
        }
        0x01 => Frame::Ping,
        0x02 | 0x03 => {
            let largest = r.var()?;
            let delay = r.var()?;
            let count = r.var()?;
            let first = r.var()?;
            if first > largest {
                return Err(Short);
            }
            let mut ranges = vec![(largest - first, largest)];
            let mut smallest = largest - first;
            for _ in 0..count {
                let gap = r.var()?;
                let len = r.var()?;
                let hi = smallest.checked_sub(gap).and_then(|x| x.checked_sub(2)).ok_or(Short)?;
                let lo = hi.checked_sub(len).ok_or(Short)?;
                ranges.push((lo, hi));
                smallest = lo;
            }
            let ecn = if ty == 0x03 { Some((r.var()?, r.var()?, r.var()?)) } else { None };
            Frame::Ack { largest, delay, ranges, ecn }
        }
        0x04 => Frame::ResetStream { id: r.var()?, code: r.var()?, final_size: r.var()? },
        0x05 => Frame::StopSending { id: r.var()?, code: r.var()? },
        0x06 => {
            let offset = r.var()?;
            let len = r.var()? as usize;
            r.take(len)?;
            Frame::Crypto { offset, len }
        }
        0x07 => {
            let len = r.var()? as usize;
            Frame::NewToken { token: r.take(len)?.to_vec() }
        }
        0x08..=0x0f => {
            let id = r.var()?;
            let offset = if ty & 0x04 != 0 { r.var()? } else { 0 };
            let len = if ty & 0x02 != 0 { r.var()? as usize } else { r.left() };
            let data_at = r.p;
            r.take(len)?;
            Frame::Stream { id, offset, len, fin: ty & 0x01 != 0, data_at }
        }
        0x10 => Frame::MaxData(r.var()?),
        0x11 => Frame::MaxStreamData { id: r.var()?, max: r.var()? },
        0x12 => Frame::MaxStreams { bidi: true, max: r.var()? },
        0x13 => Frame::MaxStreams { bidi: false, max: r.var()? },
        0x14 => Frame::DataBlocked(r.var()?),
        0x15 => Frame::StreamDataBlocked { id: r.var()?, limit: r.var()? },
        0x16 => Frame::StreamsBlocked { bidi: true, limit: r.var()? },
        0x17 => Frame::StreamsBlocked { bidi: false, limit: r.var()? },
        0x18 => {
            let seq = r.var()?;
            let retire_prior_to = r.var()?;
            let l = r.u8()? as usize;
            let cid = r.take(l)?.to_vec();
            let mut reset_token = [0u8; 16];
            reset_token.copy_from_slice(r.take(16)?);
            Frame::NewConnectionId { seq, retire_prior_to, cid, reset_token }
        }
        0x19 => Frame::RetireConnectionId { seq: r.var()? },
        0x1a => Frame::PathChallenge(r.u64be()?),
        0x1b => Frame::PathResponse(r.u64be()?),
        0x1c => {
            let code = r.var()?;
            let frame_type = r.var()?;
            let l = r.var()? as usize;
            Frame::ConnectionClose { code, frame_type, reason: r.take(l)?.to_vec() }
        }
        0x1d => {
            let code = r.var()?;
            let l = r.var()? as usize;
            Frame::ApplicationClose { code, reason: r.take(l)?.to_vec() }
        }
        0x1e => Frame::HandshakeDone,
        0x1f => Frame::ImmediateAck,
        0xaf => Frame::AckFrequency { seq: r.var()?, threshold: r.var()?, max_ack_delay: r.var()?, reorder: r.var()? },
        0x30 => {
            let data_at = r.p;
            let len = r.left();
            r.take(len)?;
            Frame::Datagram { len, data_at }
        }
        0x31 => {
            let len = r.var()? as usize;
            let data_at = r.p;
            r.take(len)?;
            Frame::Datagram { len, data_at }
        }
        _ => return Err(Short),
    })
}

/// Reconstruct a full packet number from its truncated encoding (RFC 9000 A.3).
pub fn expand_pn(largest: Option<u64>, truncated: u32, pn_len: usize) -> u64 {
    let expected = largest.map_or(0, |x| x + 1);
    let win = 1u64 << (pn_len * 8);
    let hwin = win / 2;
    let mask = win - 1;
    let candidate = (expected & !mask) | truncated as u64;
    if expected >= hwin && candidate <= expected - hwin && candidate < (1u64 << 62) - win {
        candidate + win
    } else if candidate > expected + hwin && candidate >= win {
        candidate - win
    } else {
        candidate
    }
}

/// transport error codes (RFC 9000 §20.1)
pub mod code {
    pub const NO_ERROR: u64 = 0x0;
    pub const INTERNAL_ERROR: u64 = 0x1;
    pub const CONNECTION_REFUSED: u64 = 0x2;
    pub const FLOW_CONTROL_ERROR: u64 = 0x3;
    pub const STREAM_LIMIT_ERROR: u64 = 0x4;
    pub const STREAM_STATE_ERROR: u64 = 0x5;
    pub const FINAL_SIZE_ERROR: u64 = 0x6;
    pub const FRAME_ENCODING_ERROR: u64 = 0x7;
    pub const TRANSPORT_PARAMETER_ERROR: u64 = 0x8;
    pub const CONNECTION_ID_LIMIT_ERROR: u64 = 0x9;
    pub const PROTOCOL_VIOLATION: u64 = 0xa;
    pub const INVALID_TOKEN: u64 = 0xb;
    pub const APPLICATION_ERROR: u64 = 0xc;
    pub const CRYPTO_BUFFER_EXCEEDED: u64 = 0xd;
    pub const KEY_UPDATE_ERROR: u64 = 0xe;
    pub const AEAD_LIMIT_REACHED: u64 = 0xf;
    pub const NO_VIABLE_PATH: u64 = 0x10;
}
