mod alloc;
mod app;
mod asim;
mod cfgs;
mod chooser;
mod dgram;
mod props;
mod runner;
mod scen;
mod tap;
mod util;
mod wire;
mod world;

#[global_allocator]
static GLOBAL: alloc::Counting = alloc::Counting;

fn usage() -> ! {
    eprintln!("usage: vsim check --prop <ID> --tier quick|thorough | replay <file> | selftest [quick|thorough] | world --prop <ID> --family <name> --seed <n> [--log]");
    std::process::exit(2)
}

fn arg(args: &[String], name: &str) -> Option<String> {
    args.iter().position(|a| a == name).and_then(|i| args.get(i + 1).cloned())
}

fn main() {
    runner::install_panic_hook();
    let args: Vec<String> = std::env::args().collect();
    let verif_dir = std::env::var("VERIF_DIR").unwrap_or_else(|_| "/verif".to_string());
    let verif_seed: u64 = std::env::var("VERIF_SEED").ok().and_then(|s| s.trim().parse().ok()).unwrap_or(1);
    let specs = props::all();
    let code = match args.get(1).map(|s| s.as_str()) {
        Some("check") => {
            let prop = arg(&args, "--prop").unwrap_or_else(|| usage());
            let tier = std::env::var("VERIF_TIER").ok().filter(|t| t == "quick" || t == "thorough").or_else(|| arg(&args, "--tier")).unwrap_or_else(|| "quick".into());
            match specs.iter().find(|s| s.id == prop) {
                Some(spec) => runner::run_check(spec, &tier, verif_seed, &verif_dir),
                None => {
                    eprintln!("unknown property {}", prop);
                    2
                }
            }
        }
        Some("replay") => {
            let path = args.get(2).cloned().unwrap_or_else(|| usage());
            runner::replay_file(&specs, &path)
        }
        Some("selftest") => props::selftest::run(&specs, args.get(2).map(|s| s.as_str()).unwrap_or("quick"), verif_seed),
        Some("world") => {
            let prop = arg(&args, "--prop").unwrap_or_else(|| usage());
            let fam = arg(&args, "--family");
            let seed: u64 = arg(&args, "--seed").and_then(|s| s.parse().ok()).unwrap_or(1);
            let spec = specs.iter().find(|s| s.id == prop).unwrap_or_else(|| usage());
            let f = match &fam {
                Some(n) => spec.families.iter().find(|f| f.name == n).unwrap_or_else(|| usage()),
                None => &spec.families[0],
            };
            let o = runner::run_family(f.f, chooser::Chooser::generate(seed), &runner::RunCtx { log: args.iter().any(|a| a == "--log"), keep_trace_text: args.iter().any(|a| a == "--trace"), ..Default::default() });
            for l in &o.log {
                println!("{}", l);
            }
            if let Some(n) = arg(&args, "--repeat").and_then(|s| s.parse::<u32>().ok()) {
                for k in 0..n {
                    let r = runner::run_family(f.f, chooser::Chooser::generate(seed), &runner::RunCtx { keep_trace_text: args.iter().any(|a| a == "--trace"), log: args.iter().any(|a| a == "--log"), ..Default::default() });
                    if r.log != o.log {
                        std::fs::write("/tmp/repeat_a.log", o.log.join("\n")).unwrap();
                        std::fs::write("/tmp/repeat_b.log", r.log.join("\n")).unwrap();
                        let i = o.log.iter().zip(r.log.iter()).position(|(a, b)| a != b).unwrap_or(o.log.len().min(r.log.len()));
                        println!("REPEAT {} differs: items {} vs {}; first diff at {}:", k, o.log.len(), r.log.len(), i);
                        for j in i.saturating_sub(3)..(i + 4) {
                            println!("   first: {:?}\n   again: {:?}", o.log.get(j), r.log.get(j));
                        }
                        break;
                    }
                }
            }
            if args.iter().any(|a| a == "--replaycheck") {
                let r = runner::run_family(f.f, chooser::Chooser::replay(o.choices.clone()), &runner::RunCtx { keep_trace_text: true, ..Default::default() });
                let i = o.log.iter().zip(r.log.iter()).position(|(a, b)| a != b).unwrap_or(o.log.len().min(r.log.len()));
                println!("REPLAYCHECK gen items={} replay items={} first diff at {}: gen=[{:?}] replay=[{:?}] choices gen={} replay={}", o.log.len(), r.log.len(), i, o.log.get(i), r.log.get(i), o.choices.len(), r.choices.len());
                let j = o.choices.iter().zip(r.choices.iter()).position(|(a, b)| a != b);
                println!("first differing choice index: {:?}", j);
            }
            println!("steps={} sim={}ms choices={} limit={:?} panic={:?} faults={:?} probes={:?}", o.steps, o.sim_ns / 1_000_000, o.choices.len(), o.hit_limit, o.panic, o.faults.m, o.probes.m);
            for v in &o.violations {
                println!("VIOLATION {} :: {}", v.kind, v.detail);
            }
            if o.violations.is_empty() && o.panic.is_none() { 0 } else { 1 }
        }
        _ => usage(),
    };
    std::process::exit(code);
}
