//! protosim: a discrete-event world of sans-IO `quinn_proto` endpoints and connections on a
//! simulated network with a virtual clock. Everything nondeterministic is drawn from the
//! world's `Chooser`.

use std::collections::{BTreeMap, BTreeSet};
use std::net::SocketAddr;
use std::time::{Duration, Instant};

use bytes::BytesMut;
use quinn_proto::{
    ClientConfig, Connection, ConnectionError, ConnectionHandle, DatagramEvent, EcnCodepoint,
    Endpoint, Event, Incoming, Side, Transmit,
};

use crate::chooser::Chooser;
use crate::tap::{Tap, NO_INC};

pub type Ns = u64;
pub const MS: Ns = 1_000_000;
pub const US: Ns = 1_000;
pub const SEC: Ns = 1_000_000_000;
pub const NO_NODE: u32 = u32::MAX;

#[derive(Clone, Debug, PartialEq, Eq)]
pub enum Fate {
    InFlight,
    Delivered,
    Dropped,
    MtuDropped,
    Partitioned,
    Blackholed,
    DeadNode,
}

#[derive(Clone, Debug)]
pub struct Dgram {
    pub id: u32,
    pub src: SocketAddr,
    pub dst: SocketAddr,
    pub ecn: Option<EcnCodepoint>,
    pub bytes: Vec<u8>,
    pub origin_node: u32,
    pub origin_inc: u32,
    /// exactly the bytes an endpoint of this world emitted (copies included)
    pub genuine: bool,
    /// id of the datagram this one was derived from (dup/corrupt/replay), or own id
    pub parent: u32,
    pub sent_at: Ns,
    pub deliver_at: Ns,
    pub fate: Fate,
    /// what kind of harness action produced it ("" for plain sends)
    pub note: &'static str,
}

#[derive(Clone, Debug)]
pub struct NetCfg {
    pub faults: bool,
    pub base_delay: Ns,
    pub jitter: Ns,
    /// probabilities as x/1000
    pub drop: u32,
    pub dup: u32,
    pub reorder: u32,
    pub corrupt: u32,
    pub ce: u32,
    pub bleach: bool,
    /// link MTU: larger datagrams vanish
    pub mtu: usize,
    /// unidirectional blackholes: (src node, dst node)
    pub partitions: BTreeSet<(u32, u32)>,
    /// directed loss: ordinals (among datagrams put on the wire by endpoints) to drop
    pub drop_ordinals: BTreeSet<u32>,
    pub sent_ordinal: u32,
}

impl Default for NetCfg {
    fn default() -> Self {
        Self {
            faults: false,
            base_delay: 5 * MS,
            jitter: 0,
            drop: 0,
            dup: 0,
            reorder: 0,
            corrupt: 0,
            ce: 0,
            bleach: false,
            mtu: 65_535,
            partitions: BTreeSet::new(),
            drop_ordinals: BTreeSet::new(),
            sent_ordinal: 0,
        }
    }
}

#[derive(Default, Clone, Debug)]
pub struct FaultCounts {
    pub m: BTreeMap<&'static str, u64>,
}
impl FaultCounts {
    pub fn hit(&mut self, k: &'static str) {
        *self.m.entry(k).or_insert(0) += 1;
    }
    pub fn add(&mut self, o: &FaultCounts) {
        for (k, v) in &o.m {
            *self.m.entry(k).or_insert(0) += v;
        }
    }
}

pub enum Ev {
    Deliver(u32),
    Timer { inc: u32, gen: u64 },
    Wake(u64),
}

pub struct Node {
    pub id: u32,
    pub ep: Endpoint,
    pub addr: SocketAddr,
    pub alive: bool,
    pub by_handle: BTreeMap<usize, u32>,
    pub cid_len: usize,
    pub gso: usize,
}

pub struct Conn {
    pub inc: u32,
    pub node: u32,
    pub ch: ConnectionHandle,
    pub conn: Connection,
    pub side: Side,
    pub timer: Option<Ns>,
    pub timer_gen: u64,
    /// paired incarnation on the peer (client<->server), if known
    pub peer: u32,
    /// Drained endpoint event seen and handled by the endpoint
    pub drained_handled: bool,
    pub drained_events: u32,
    pub lost: Vec<ConnectionError>,
    pub created_at: Ns,
    pub closed_locally_at: Option<Ns>,
    /// frozen connections are not driven any more (puppet takeover / peer crash)
    pub frozen: bool,
    pub tx_datagrams: u64,
    /// datagrams emitted at the virtual instant `tx_burst_at` (transmit-storm guard)
    pub tx_burst_at: Ns,
    pub tx_burst: u64,
    pub tx_window_at: Ns,
    pub tx_window: u64,
    pub mtu_probes_seen: u64,
    pub last_timeout_serviced: Option<Ns>,
    pub same_instant_timeouts: u32,
    pub connected_at: Option<Ns>,
    pub hs_data_at: Option<Ns>,
}

#[derive(Clone, Debug)]
pub struct TxRec {
    pub inc: u32,
    pub t: Ns,
    pub size: usize,
    pub segment_size: Option<usize>,
    pub first_dgram: u32,
    pub n_dgrams: u32,
    pub dst: SocketAddr,
    pub mtu_before: u16,
    /// tap packet-record index range produced by this poll_transmit call
    pub pk_from: usize,
    pub pk_to: usize,
    /// accounting snapshots around the call (when drv.track_probe)
    pub before: Option<quinn_proto::VerifProbe>,
    pub after: Option<quinn_proto::VerifProbe>,
    /// the connection counted this transmit as a path-MTU probe (`stats().path.sent_plpmtud_probes`)
    pub mtu_probe: bool,
}

#[derive(Clone, Debug)]
pub enum Routed {
    None,
    Conn(u32),
    New,
    Response(usize),
}

#[derive(Clone, Debug)]
pub struct HandleRec {
    pub dgram: u32,
    pub node: u32,
    pub t: Ns,
    pub routed: Routed,
}

pub enum IncomingAction {
    Accept,
    AcceptWith(std::sync::Arc<quinn_proto::ServerConfig>),
    Retry,
    Refuse,
    Ignore,
    Wait,
}

pub struct Waiting {
    pub node: u32,
    pub incoming: Incoming,
    pub dgram: u32,
    pub tag: u64,
}

#[derive(Clone, Debug)]
pub struct Violation {
    pub kind: String,
    pub detail: String,
    pub t: Ns,
    pub step: u64,
}

#[derive(Clone, Debug)]
pub struct DriverCfg {
    /// timers may be serviced late: probability x/1000 and max lateness
    pub late: u32,
    pub late_max: Ns,
    /// extra calls that must be harmless (C20): not chooser driven
    pub spurious: bool,
    /// cap on poll_transmit calls per drive (rest is left for the next step)
    pub transmit_cap: usize,
    pub track_frame_rx: bool,
    pub track_probe: bool,
}

impl Default for DriverCfg {
    fn default() -> Self {
        Self { late: 0, late_max: 0, spurious: false, transmit_cap: 10_000, track_frame_rx: false, track_probe: false }
    }
}

#[derive(Clone, Debug, Default)]
pub struct Limits {
    pub max_events: u64,
    pub max_time: Ns,
    pub max_heap: i64,
}

pub struct World {
    /// real-time instant after which the world gives up (never read otherwise)
    pub deadline: Option<std::time::Instant>,
    pub ch: Chooser,
    pub tap: Tap,
    pub base: Instant,
    pub now: Ns,
    pub seq: u64,
    pub step: u64,
    pub queue: BTreeMap<(Ns, u64), Ev>,
    pub nodes: Vec<Node>,
    pub conns: Vec<Conn>,
    pub addr_map: BTreeMap<SocketAddr, u32>,
    pub net: NetCfg,
    pub drv: DriverCfg,
    pub dgrams: Vec<Dgram>,
    pub txlog: Vec<TxRec>,
    pub handled: Vec<HandleRec>,
    /// (server connection, datagram that created its Incoming, address validated by a token)
    pub accepts: Vec<(u32, u32, bool)>,
    pub waiting: Vec<Option<Waiting>>,
    pub dirty: Vec<u32>,
    pub violations: Vec<Violation>,
    pub faults: FaultCounts,
    pub probes: FaultCounts,
    pub trace: Vec<u64>,
    pub trace_text: Option<Vec<String>>,
    pub log: Vec<String>,
    pub log_on: bool,
    pub limits: Limits,
    pub hit_limit: Option<&'static str>,
    /// (dgram id, frame_rx delta observed) for C04, filled when drv.track_frame_rx
    pub rx_deltas: Vec<RxDelta>,
    pub in_flight: u32,
    pub sig: u64,
    pub last_delivered_sent_at: BTreeMap<u32, Ns>,
    /// application events emitted during the current step: (inc, event kind, debug text hash)
    pub step_events: Vec<(u32, u32)>,
    /// datagram delivered in the current step (u32::MAX if the step was not a delivery)
    pub step_dgram: u32,
    /// nodes that are suspended until the given instant
    pub suspended: BTreeMap<u32, Ns>,
    /// reset-key seed per node (so that oracles can recompute stateless reset tokens)
    pub reset_key_seeds: BTreeMap<u32, u64>,
    /// largest one-way delay any datagram experienced so far
    pub max_owd: Ns,
    pub live_at_start: i64,
    /// (tap index, probe snapshot) taken right before the poll_transmit call being processed
    pub tx_ctx: Option<(usize, Option<quinn_proto::VerifProbe>)>,
}

#[derive(Clone, Debug)]
pub struct RxDelta {
    pub inc: u32,
    pub dgram: u32,
    pub before: [u64; 24],
    pub after: [u64; 24],
    pub pkts_from: usize,
    pub pkts_to: usize,
}

pub trait Scenario {
    fn on_incoming(&mut self, _w: &mut World, _node: u32, _incoming: &Incoming, _dgram: u32) -> IncomingAction {
        IncomingAction::Accept
    }
    fn on_accepted(&mut self, _w: &mut World, _inc: u32, _dgram: u32) {}
    fn on_accept_failed(&mut self, _w: &mut World, _node: u32, _dgram: u32, _err: &ConnectionError) {}
    fn on_event(&mut self, w: &mut World, inc: u32, ev: Event);
    fn on_wake(&mut self, _w: &mut World, _tag: u64) {}
    /// called after every processed event (post drive); push violations via w.violate
    fn after_step(&mut self, _w: &mut World) {}
    /// called when the event queue runs dry (global quiescence). May schedule more work.
    fn on_quiescent(&mut self, _w: &mut World) {}
    fn done(&self, _w: &World) -> bool {
        false
    }
}

pub fn frame_stats_vec(s: &quinn_proto::FrameStats) -> [u64; 24] {
    [
        s.acks, s.ack_frequency, s.crypto, s.connection_close, s.data_blocked, s.datagram,
        s.handshake_done as u64, s.immediate_ack, s.max_data, s.max_stream_data,
        s.max_streams_bidi, s.max_streams_uni, s.new_connection_id, s.new_token,
        s.path_challenge, s.path_response, s.ping, s.reset_stream, s.retire_connection_id,
        s.stream_data_blocked, s.streams_blocked_bidi, s.streams_blocked_uni, s.stop_sending,
        s.stream,
    ]
}

impl World {
    pub fn new(ch: Chooser, tap: Tap) -> Self {
        // every world starts from the same TLS entropy: ciphertext is a function of the world
        crate::cfgs::seed_tls(1);
        Self {
            deadline: None,
            ch,
            tap,
            base: Instant::now(),
            now: 0,
            seq: 0,
            step: 0,
            queue: BTreeMap::new(),
            nodes: Vec::new(),
            conns: Vec::new(),
            addr_map: BTreeMap::new(),
            net: NetCfg::default(),
            drv: DriverCfg::default(),
            dgrams: Vec::new(),
            txlog: Vec::new(),
            handled: Vec::new(),
            accepts: Vec::new(),
            waiting: Vec::new(),
            dirty: Vec::new(),
            violations: Vec::new(),
            faults: FaultCounts::default(),
            probes: FaultCounts::default(),
            trace: Vec::new(),
            trace_text: None,
            log: Vec::new(),
            log_on: false,
            limits: Limits { max_events: 400_000, max_time: 12 * 3600 * SEC, max_heap: 1 << 30 },
            live_at_start: crate::alloc::live(),
            tx_ctx: None,
            hit_limit: None,
            rx_deltas: Vec::new(),
            in_flight: 0,
            sig: 0,
            last_delivered_sent_at: BTreeMap::new(),
            step_events: Vec::new(),
            step_dgram: u32::MAX,
            suspended: BTreeMap::new(),
            reset_key_seeds: BTreeMap::new(),
            max_owd: 0,
        }
    }

    /// world configured from the run context (logging, C20 variants)
    pub fn from_ctx(ch: Chooser, ctx: &crate::runner::RunCtx) -> Self {
        let mut w = Self::new(ch, crate::tap::new_tap());
        w.log_on = ctx.log;
        w.base += Duration::from_nanos(ctx.base_shift_ns);
        w.drv.spurious = ctx.spurious;
        w.deadline = ctx.deadline;
        if ctx.keep_trace_text {
            w.trace_text = Some(Vec::new());
        }
        w
    }

    pub fn instant(&self) -> Instant {
        self.base + Duration::from_nanos(self.now)
    }
    pub fn to_ns(&self, i: Instant) -> Ns {
        // saturating: hostile peers can push deadlines millions of years away
        i.checked_duration_since(self.base).map_or(0, |d| d.as_nanos().min((u64::MAX / 4) as u128) as u64)
    }

    pub fn violate(&mut self, kind: impl Into<String>, detail: impl Into<String>) {
        let v = Violation { kind: kind.into(), detail: detail.into(), t: self.now, step: self.step };
        if self.log_on {
            self.log.push(format!("t={} VIOLATION {} :: {}", fmt_t(self.now), v.kind, v.detail));
        }
        self.violations.push(v);
    }

    pub fn logf(&mut self, f: impl FnOnce() -> String) {
        if self.log_on {
            let s = f();
            if std::env::var_os("VERIF_LOG_STDERR").is_some() {
                // (debugging aid: survives a panic inside the code under test)
                eprintln!("t={} {}", fmt_t(self.now), s);
            }
            self.log.push(format!("t={} {}", fmt_t(self.now), s));
        }
    }

    /// abstract-event signature (no sizes/times) used to count distinct executions
    pub fn sig_mix(&mut self, x: u64) {
        self.sig = (self.sig ^ x).wrapping_mul(0x100_0000_01B3).rotate_left(17);
    }

    pub fn trace_item(&mut self, item: impl FnOnce() -> String, h: u64) {
        self.trace.push(h);
        if self.log_on {
            let s = item();
            if !s.starts_with("tx ") && !s.starts_with("ev ") && !s.starts_with("epev ") {
                self.log.push(format!("t={} api {}", fmt_t(self.now), s));
            }
            if self.trace_text.is_some() {
                let s = format!("t={} {}", self.now, s);
                self.trace_text.as_mut().unwrap().push(s);
            }
            return;
        }
        if self.trace_text.is_some() {
            let s = format!("t={} {}", self.now, item());
            self.trace_text.as_mut().unwrap().push(s);
        }
    }

    pub fn add_node(&mut self, ep: Endpoint, addr: SocketAddr, cid_len: usize, gso: usize) -> u32 {
        let id = self.nodes.len() as u32;
        self.nodes.push(Node { id, ep, addr, alive: true, by_handle: BTreeMap::new(), cid_len, gso });
        self.addr_map.insert(addr, id);
        id
    }

    /// NAT rebinding / address change: datagrams from this node now carry `new` as source and
    /// datagrams to the old address vanish.
    pub fn rebind(&mut self, node: u32, new: SocketAddr) {
        let old = self.nodes[node as usize].addr;
        self.addr_map.remove(&old);
        self.addr_map.insert(new, node);
        self.nodes[node as usize].addr = new;
        self.faults.hit("rebind");
        self.logf(|| format!("rebind node{} {} -> {}", node, old, new));
    }

    pub fn schedule(&mut self, at: Ns, ev: Ev) {
        self.seq += 1;
        let at = at.max(self.now);
        self.queue.insert((at, self.seq), ev);
    }
    pub fn wake_at(&mut self, at: Ns, tag: u64) {
        self.schedule(at, Ev::Wake(tag));
    }
    pub fn wake_in(&mut self, d: Ns, tag: u64) {
        self.schedule(self.now + d, Ev::Wake(tag));
    }

    fn enter(&self, node: u32, inc: u32) {
        let mut t = self.tap.lock().unwrap();
        t.now = self.now;
        t.seq = self.step;
        t.node = node;
        t.inc = inc;
    }

    pub fn touch(&mut self, inc: u32) {
        if !self.dirty.contains(&inc) {
            self.dirty.push(inc);
        }
    }

    /// mutable access for application calls; marks the connection as needing a drive
    pub fn conn_mut(&mut self, inc: u32) -> &mut Connection {
        self.touch(inc);
        let (node, i) = (self.conns[inc as usize].node, inc);
        self.enter(node, i);
        &mut self.conns[inc as usize].conn
    }
    pub fn conn(&self, inc: u32) -> &Connection {
        &self.conns[inc as usize].conn
    }

    pub fn connect(&mut self, node: u32, cfg: ClientConfig, remote: SocketAddr, name: &str) -> Result<u32, quinn_proto::ConnectError> {
        let inc = self.conns.len() as u32;
        self.enter(node, inc);
        let now = self.instant();
        let (ch, conn) = self.nodes[node as usize].ep.connect(now, cfg, remote, name)?;
        self.enter(node, NO_INC);
        self.nodes[node as usize].by_handle.insert(ch.0, inc);
        self.conns.push(Conn {
            inc,
            node,
            ch,
            conn,
            side: Side::Client,
            timer: None,
            timer_gen: 0,
            peer: NO_INC,
            drained_handled: false,
            drained_events: 0,
            lost: Vec::new(),
            created_at: self.now,
            closed_locally_at: None,
            frozen: false,
            tx_datagrams: 0,
            tx_burst_at: 0,
            tx_burst: 0,
            tx_window_at: 0,
            tx_window: 0,
            mtu_probes_seen: 0,
            last_timeout_serviced: None,
            same_instant_timeouts: 0,
            connected_at: None,
            hs_data_at: None,
        });
        self.touch(inc);
        self.logf(|| format!("node{} connect -> inc{} ch{}", node, inc, ch.0));
        Ok(inc)
    }

    // --------------------------------------------------------------------------------------
    // network
    // --------------------------------------------------------------------------------------

    /// An endpoint (or the harness on behalf of an attacker) puts a datagram on the wire.
    pub fn net_send(&mut self, mut d: Dgram) -> u32 {
        let id = self.dgrams.len() as u32;
        d.id = id;
        if d.parent == u32::MAX {
            d.parent = id;
        }
        d.sent_at = self.now;
        let cfg_faults = self.net.faults;
        let mut delay = self.net.base_delay;
        let mut fate = Fate::InFlight;
        let dst_node = self.addr_map.get(&d.dst).copied();
        if d.bytes.len() > self.net.mtu {
            fate = Fate::MtuDropped;
            self.faults.hit("mtu_drop");
        } else if let (Some(dn), true) = (dst_node, d.origin_node != NO_NODE) {
            if self.net.partitions.contains(&(d.origin_node, dn)) {
                fate = Fate::Partitioned;
                self.faults.hit("partition_drop");
            }
        }
        if d.origin_node != NO_NODE {
            let ord = self.net.sent_ordinal;
            self.net.sent_ordinal += 1;
            if fate == Fate::InFlight && self.net.drop_ordinals.contains(&ord) {
                fate = Fate::Dropped;
                self.faults.hit("directed_drop");
            }
        }
        let mut dup = 0;
        if fate == Fate::InFlight && cfg_faults {
            if self.ch.chance("net.drop", self.net.drop, 1000) {
                fate = Fate::Dropped;
                self.faults.hit("drop");
            } else {
                if self.net.jitter > 0 {
                    delay += self.ch.range("net.jitter", 0, self.net.jitter / US) * US;
                }
                if self.ch.chance("net.reorder", self.net.reorder, 1000) {
                    // hold this one back for a multiple of the base delay
                    delay += self.ch.range("net.hold", 1, 8) * self.net.base_delay.max(MS);
                    self.faults.hit("reorder_hold");
                }
                if self.ch.chance("net.dup", self.net.dup, 1000) {
                    dup = 1 + self.ch.choose("net.dupn", 3);
                    self.faults.hit("dup");
                }
                if d.ecn.is_some() {
                    if self.net.bleach {
                        d.ecn = None;
                    } else if self.ch.chance("net.ce", self.net.ce, 1000) {
                        d.ecn = Some(EcnCodepoint::Ce);
                        self.faults.hit("ecn_ce");
                    }
                }
                if self.ch.chance("net.corrupt", self.net.corrupt, 1000) {
                    self.corrupt(&mut d);
                }
            }
        }
        d.deliver_at = self.now + delay;
        d.fate = fate.clone();
        if self.log_on && fate != Fate::InFlight {
            let (l, dst) = (d.bytes.len(), d.dst);
            self.logf(|| format!("net {:?} dgram#{} {}B -> {}", fate, id, l, dst));
        }
        let proto = d.clone();
        self.dgrams.push(d);
        if fate == Fate::InFlight {
            self.in_flight += 1;
            self.schedule(self.now + delay, Ev::Deliver(id));
        }
        for _ in 0..dup {
            let mut c = proto.clone();
            c.parent = id;
            c.note = "dup";
            let extra = self.ch.range("net.dupdelay", 0, 20) * self.net.base_delay.max(MS) / 4;
            let cid = self.dgrams.len() as u32;
            c.id = cid;
            c.deliver_at = self.now + delay + extra;
            c.fate = Fate::InFlight;
            self.dgrams.push(c);
            self.in_flight += 1;
            self.schedule(self.now + delay + extra, Ev::Deliver(cid));
        }
        id
    }

    fn corrupt(&mut self, d: &mut Dgram) {
        if d.bytes.is_empty() {
            return;
        }
        d.genuine = false;
        d.note = "corrupt";
        self.faults.hit("corrupt");
        let original = d.bytes.clone();
        let len = d.bytes.len();
        match self.ch.weighted("net.corrupt.kind", &[6, 2, 1, 1]) {
            0 => {
                // bit flips, positions biased towards header / tail
                let n = 1 + self.ch.range_log("net.corrupt.nbits", 0, 7);
                for _ in 0..n {
                    let pos = match self.ch.weighted("net.corrupt.where", &[2, 3, 2]) {
                        0 => self.ch.range("net.corrupt.pos", 0, len as u64 - 1) as usize,
                        1 => self.ch.range("net.corrupt.pos", 0, (len as u64 - 1).min(40)) as usize,
                        _ => len - 1 - self.ch.range("net.corrupt.pos", 0, (len as u64 - 1).min(17)) as usize,
                    };
                    let bit = self.ch.choose("net.corrupt.bit", 8);
                    d.bytes[pos] ^= 1 << bit;
                }
            }
            1 => {
                let keep = self.ch.range("net.corrupt.trunc", 0, len as u64 - 1) as usize;
                d.bytes.truncate(keep);
            }
            2 => {
                let extra = 1 + self.ch.range_log("net.corrupt.ext", 0, 63) as usize;
                let mut tail = vec![0u8; extra];
                self.ch.bytes("net.corrupt.extbytes", &mut tail);
                d.bytes.extend_from_slice(&tail);
            }
            _ => {
                // overwrite a span with noise
                let start = self.ch.range("net.corrupt.start", 0, len as u64 - 1) as usize;
                let n = (1 + self.ch.range_log("net.corrupt.span", 0, 31) as usize).min(len - start);
                let mut noise = vec![0u8; n];
                self.ch.bytes("net.corrupt.noise", &mut noise);
                // XOR with non-zero noise: the result always differs from the original, whatever
                // the (randomised) ciphertext bytes are — overwriting could restore the original
                // byte by chance and make the outcome depend on rustls/ring randomness
                for (b, x) in d.bytes[start..start + n].iter_mut().zip(noise.iter()) {
                    *b ^= *x | 1;
                }
            }
        }
        // (TLS entropy is seeded per world — see cfgs::seed_tls — so ciphertext bytes are
        // deterministic and any damage, including to header structure, replays exactly)
        if d.bytes == original {
            // two flips of the same bit cancel out (independent of the byte values)
            d.genuine = true;
            d.note = "corrupt-noop";
        }
    }

    /// Attacker / harness injects a datagram to be delivered at `at` (no faults applied).
    pub fn inject(&mut self, at: Ns, src: SocketAddr, dst: SocketAddr, bytes: Vec<u8>, ecn: Option<EcnCodepoint>, genuine: bool, parent: u32, note: &'static str) -> u32 {
        let id = self.dgrams.len() as u32;
        let (origin_node, origin_inc) = if parent != u32::MAX {
            (self.dgrams[parent as usize].origin_node, self.dgrams[parent as usize].origin_inc)
        } else {
            (NO_NODE, NO_INC)
        };
        self.dgrams.push(Dgram {
            id,
            src,
            dst,
            ecn,
            bytes,
            origin_node,
            origin_inc,
            genuine,
            parent: if parent == u32::MAX { id } else { parent },
            sent_at: self.now,
            deliver_at: at.max(self.now),
            fate: Fate::InFlight,
            note,
        });
        self.in_flight += 1;
        self.schedule(at, Ev::Deliver(id));
        if self.log_on {
            let head = crate::util::hex(&self.dgrams[id as usize].bytes[..self.dgrams[id as usize].bytes.len().min(28)]);
            self.logf(|| format!("inject dgram#{} ({}, parent #{}) {} -> {} head={}", id, note, parent as i64, src, dst, head));
        }
        id
    }

    fn emit_transmit(&mut self, node: u32, inc: u32, t: Transmit, buf: &[u8], mtu_before: u16) {
        let src = self.nodes[node as usize].addr;
        let seg = t.segment_size.unwrap_or(t.size.max(1));
        let first = self.dgrams.len() as u32;
        let mut n = 0;
        let mut off = 0;
        // (with deterministic TLS entropy even the ciphertext bytes are part of the trace)
        let h = crate::chooser::mix(&[self.now, inc as u64, t.size as u64, t.segment_size.map_or(0, |s| s as u64 + 1), addr_hash(&t.destination), t.ecn.map_or(0, |e| e as u64 + 1), crate::util::fnv(&buf[..t.size.min(buf.len())])]);
        self.trace_item(|| format!("tx inc={} size={} seg={:?} dst={} ecn={:?}", inc, t.size, t.segment_size, t.destination, t.ecn), h);
        while off < t.size {
            let end = (off + seg).min(t.size);
            self.net_send(Dgram {
                id: 0,
                src,
                dst: t.destination,
                ecn: t.ecn,
                bytes: buf[off..end].to_vec(),
                origin_node: node,
                origin_inc: inc,
                genuine: true,
                parent: u32::MAX,
                sent_at: 0,
                deliver_at: 0,
                fate: Fate::InFlight,
                note: "",
            });
            n += 1;
            off = end;
        }
        if inc != NO_INC && (inc as usize) < self.conns.len() {
            // a connection that keeps producing datagrams without the clock ever moving is looping
            // (no window drawn by any configuration here lets 50 000 datagrams out at one instant)
            let now = self.now;
            let c = &mut self.conns[inc as usize];
            if c.tx_burst_at != now {
                c.tx_burst_at = now;
                c.tx_burst = 0;
            }
            c.tx_burst += n as u64;
            if c.tx_burst > 50_000 && self.violations.is_empty() {
                self.violate("transmit-storm", format!("inc{} emitted more than 50000 datagrams at the single instant {}", inc, fmt_t(now)));
                self.hit_limit = Some("storm");
            }
            // ... and so is one that emits more than 100 000 datagrams within one second of virtual
            // time (120 MB at full size: no workload here is that large, flood worlds included)
            let c = &mut self.conns[inc as usize];
            if now > c.tx_window_at + SEC {
                c.tx_window_at = now;
                c.tx_window = 0;
            }
            c.tx_window += n as u64;
            if c.tx_window > 100_000 && self.hit_limit != Some("storm") {
                if self.violations.is_empty() {
                    self.violate("transmit-storm", format!("inc{} emitted more than 100000 datagrams within one second of virtual time (by {})", inc, fmt_t(now)));
                }
                self.hit_limit = Some("storm");
            }
        }
        if t.size == 0 {
            // a zero-size transmit is itself suspicious; record it as a datagram of size 0
            self.net_send(Dgram { id: 0, src, dst: t.destination, ecn: t.ecn, bytes: Vec::new(), origin_node: node, origin_inc: inc, genuine: true, parent: u32::MAX, sent_at: 0, deliver_at: 0, fate: Fate::InFlight, note: "" });
            n += 1;
        }
        if inc != NO_INC {
            self.conns[inc as usize].tx_datagrams += n as u64;
        }
        let (pk_from, before) = self.tx_ctx.take().unwrap_or((usize::MAX, None));
        let pk_to = if pk_from == usize::MAX { usize::MAX } else { self.tap.lock().unwrap().pkts.len() };
        let after = if before.is_some() && inc != NO_INC { Some(self.conns[inc as usize].conn.verif_probe()) } else { None };
        let mtu_probe = if inc != NO_INC && (inc as usize) < self.conns.len() {
            let c = &mut self.conns[inc as usize];
            let cur = c.conn.stats().path.sent_plpmtud_probes;
            let p = cur > c.mtu_probes_seen;
            c.mtu_probes_seen = cur;
            p
        } else {
            false
        };
        self.txlog.push(TxRec { inc, t: self.now, size: t.size, segment_size: t.segment_size, first_dgram: first, n_dgrams: n, dst: t.destination, mtu_before, pk_from, pk_to, before, after, mtu_probe });
        if n > 1 {
            self.probes.hit("gso_batch");
        }
    }

    // --------------------------------------------------------------------------------------
    // delivery
    // --------------------------------------------------------------------------------------

    fn deliver(&mut self, id: u32, scen: &mut dyn Scenario) {
        self.in_flight -= 1;
        let (dst, src, ecn, bytes) = {
            let d = &self.dgrams[id as usize];
            (d.dst, d.src, d.ecn, d.bytes.clone())
        };
        let Some(&node) = self.addr_map.get(&dst) else {
            self.dgrams[id as usize].fate = Fate::Blackholed;
            return;
        };
        if !self.nodes[node as usize].alive {
            self.dgrams[id as usize].fate = Fate::DeadNode;
            return;
        }
        self.dgrams[id as usize].fate = Fate::Delivered;
        self.max_owd = self.max_owd.max(self.now.saturating_sub(self.dgrams[id as usize].sent_at));
        {
            let sent_at = self.dgrams[id as usize].sent_at;
            let last = self.last_delivered_sent_at.entry(node).or_insert(0);
            if sent_at < *last {
                self.faults.hit("delivered_out_of_order");
            } else {
                *last = sent_at;
            }
        }
        self.enter(node, NO_INC);
        self.tap.lock().unwrap().cur_dgram = id;
        let now = self.instant();
        let mut buf = Vec::new();
        let ev = self.nodes[node as usize].ep.handle(now, src, None, ecn, BytesMut::from(&bytes[..]), &mut buf);
        let routed;
        match ev {
            None => routed = Routed::None,
            Some(DatagramEvent::ConnectionEvent(ch, cev)) => {
                let inc = *self.nodes[node as usize].by_handle.get(&ch.0).expect("endpoint routed to unknown handle");
                routed = Routed::Conn(inc);
                self.feed(inc, cev, id);
            }
            Some(DatagramEvent::Response(t)) => {
                routed = Routed::Response(t.size);
                let b = buf.clone();
                self.emit_transmit(node, NO_INC, t, &b, 0);
            }
            Some(DatagramEvent::NewConnection(incoming)) => {
                routed = Routed::New;
                let act = scen.on_incoming(self, node, &incoming, id);
                self.resolve_incoming(node, incoming, id, act, scen);
            }
        }
        self.tap.lock().unwrap().cur_dgram = u32::MAX;
        if self.log_on {
            let (len, note, genuine) = { let d = &self.dgrams[id as usize]; (d.bytes.len(), d.note, d.genuine) };
            let r = format!("{:?}", routed);
            let hdrs = crate::wire::walk_datagram(&self.dgrams[id as usize].bytes, self.nodes[node as usize].cid_len).iter().map(|(_, h)| match h {
                crate::wire::PublicHeader::Long { ty, dcid, scid, token, .. } => format!("{:?}(dcid={} scid={} tok={})", ty, crate::util::hex(dcid), crate::util::hex(scid), token.len()),
                crate::wire::PublicHeader::Short { dcid, .. } => format!("Short(dcid={})", crate::util::hex(dcid)),
                crate::wire::PublicHeader::VersionNegotiation { .. } => "VN".to_string(),
            }).collect::<Vec<_>>().join("+");
            self.logf(|| format!("deliver dgram#{} {}B {} -> node{} {} {}{}{}", id, len, src, node, hdrs, r, if genuine { "" } else { " NON-GENUINE" }, if note.is_empty() { String::new() } else { format!(" ({})", note) }));
        }
        self.sig_mix(match &routed {
            Routed::None => 11,
            Routed::Conn(_) => 12,
            Routed::New => 13,
            Routed::Response(_) => 14,
        });
        self.handled.push(HandleRec { dgram: id, node, t: self.now, routed });
    }

    fn feed(&mut self, inc: u32, cev: quinn_proto::ConnectionEvent, dgram: u32) {
        let node = self.conns[inc as usize].node;
        if self.conns[inc as usize].frozen {
            return;
        }
        self.enter(node, inc);
        if self.drv.track_frame_rx {
            let before = frame_stats_vec(&self.conns[inc as usize].conn.stats().frame_rx);
            let from = self.tap.lock().unwrap().pkts.len();
            self.conns[inc as usize].conn.handle_event(cev);
            let after = frame_stats_vec(&self.conns[inc as usize].conn.stats().frame_rx);
            let to = self.tap.lock().unwrap().pkts.len();
            self.rx_deltas.push(RxDelta { inc, dgram, before, after, pkts_from: from, pkts_to: to });
        } else {
            self.conns[inc as usize].conn.handle_event(cev);
        }
        self.touch(inc);
    }

    pub fn resolve_incoming(&mut self, node: u32, incoming: Incoming, dgram: u32, act: IncomingAction, scen: &mut dyn Scenario) {
        let now = self.instant();
        let mut buf = Vec::new();
        match act {
            IncomingAction::Accept | IncomingAction::AcceptWith(_) => {
                let cfg = if let IncomingAction::AcceptWith(c) = act { Some(c) } else { None };
                let inc = self.conns.len() as u32;
                self.enter(node, inc);
                let pk_from = self.tap.lock().unwrap().pkts.len();
                let token_validated = incoming.remote_address_validated();
                match self.nodes[node as usize].ep.accept(incoming, now, &mut buf, cfg) {
                    Ok((ch, conn)) => {
                        self.accepts.push((inc, dgram, token_validated));
                        self.nodes[node as usize].by_handle.insert(ch.0, inc);
                        let peer = self.dgrams[dgram as usize].origin_inc;
                        self.conns.push(Conn {
                            inc,
                            node,
                            ch,
                            conn,
                            side: Side::Server,
                            timer: None,
                            timer_gen: 0,
                            peer,
                            drained_handled: false,
                            drained_events: 0,
                            lost: Vec::new(),
                            created_at: self.now,
                            closed_locally_at: None,
                            frozen: false,
                            tx_datagrams: 0,
                            tx_burst_at: 0,
                            tx_burst: 0,
                            tx_window_at: 0,
                            tx_window: 0,
                            mtu_probes_seen: 0,
                            last_timeout_serviced: None,
                            same_instant_timeouts: 0,
                            connected_at: None,
                            hs_data_at: None,
                        });
                        if peer != NO_INC && (peer as usize) < self.conns.len() && self.dgrams[dgram as usize].genuine {
                            let old = self.conns[peer as usize].peer;
                            // (a client whose first server connection was closed and forgotten
                            // before any of its packets arrived completes the handshake with the
                            // connection its retransmitted Initial creates)
                            if old == NO_INC || ((old as usize) < self.conns.len() - 1 && self.conns[old as usize].drained_handled && self.conns[peer as usize].conn.is_handshaking()) {
                                self.conns[peer as usize].peer = inc;
                            }
                        }
                        if self.drv.track_frame_rx {
                            let after = frame_stats_vec(&self.conns[inc as usize].conn.stats().frame_rx);
                            let to = self.tap.lock().unwrap().pkts.len();
                            self.rx_deltas.push(RxDelta { inc, dgram, before: [0; 24], after, pkts_from: pk_from, pkts_to: to });
                        }
                        self.touch(inc);
                        self.logf(|| format!("node{} accept dgram#{} -> inc{} ch{}", node, dgram, inc, ch.0));
                        scen.on_accepted(self, inc, dgram);
                    }
                    Err(e) => {
                        if let Some(t) = e.response {
                            let b = buf.clone();
                            self.emit_transmit(node, NO_INC, t, &b, 0);
                        }
                        self.logf(|| format!("node{} accept dgram#{} failed: {}", node, dgram, e.cause));
                        scen.on_accept_failed(self, node, dgram, &e.cause);
                    }
                }
                self.enter(node, NO_INC);
            }
            IncomingAction::Retry => {
                self.enter(node, NO_INC);
                match self.nodes[node as usize].ep.retry(incoming, &mut buf) {
                    Ok(t) => {
                        let b = buf.clone();
                        self.emit_transmit(node, NO_INC, t, &b, 0);
                        self.probes.hit("retry_sent");
                    }
                    Err(e) => {
                        // not allowed to retry: accept instead
                        let incoming = e.into_incoming();
                        self.resolve_incoming(node, incoming, dgram, IncomingAction::Accept, scen);
                    }
                }
            }
            IncomingAction::Refuse => {
                self.enter(node, NO_INC);
                let t = self.nodes[node as usize].ep.refuse(incoming, &mut buf);
                let b = buf.clone();
                self.emit_transmit(node, NO_INC, t, &b, 0);
            }
            IncomingAction::Ignore => {
                self.enter(node, NO_INC);
                self.nodes[node as usize].ep.ignore(incoming);
            }
            IncomingAction::Wait => {
                let tag = self.waiting.len() as u64;
                self.waiting.push(Some(Waiting { node, incoming, dgram, tag }));
            }
        }
    }

    // --------------------------------------------------------------------------------------
    // driver
    // --------------------------------------------------------------------------------------

    fn drive_conn(&mut self, inc: u32, scen: &mut dyn Scenario) {
        let node = self.conns[inc as usize].node;
        if self.conns[inc as usize].frozen {
            return;
        }
        let mut rounds = 0;
        loop {
            rounds += 1;
            if rounds > 10_000 {
                self.violate("driver-livelock", format!("inc{} drive loop did not settle", inc));
                break;
            }
            self.enter(node, inc);
            let now = self.instant();
            if self.drv.spurious {
                // an extra timeout-handler call when nothing is due must change nothing
                let c = &mut self.conns[inc as usize];
                if c.conn.poll_timeout().is_none_or(|t| t > now) {
                    c.conn.handle_timeout(now);
                }
            }
            // endpoint events
            loop {
                let c = &mut self.conns[inc as usize];
                let Some(ev) = c.conn.poll_endpoint_events() else { break };
                let drained = ev.is_drained();
                let ch = c.ch;
                if drained {
                    c.drained_events += 1;
                    let h = crate::chooser::mix(&[self.now, inc as u64, 0xD7A1]);
                    self.trace_item(|| format!("epev inc={} Drained", inc), h);
                } else {
                    let h = crate::chooser::mix(&[self.now, inc as u64, 0xE9E7]);
                    self.trace_item(|| format!("epev inc={} other", inc), h);
                }
                let c = &mut self.conns[inc as usize];
                if drained && c.drained_handled {
                    // a second Drained would make the endpoint log "unknown connection drained"
                    // (or kill whoever reuses the slot): never forward it, the oracle flags it.
                    continue;
                }
                let resp = self.nodes[node as usize].ep.handle_event(ch, ev);
                let c = &mut self.conns[inc as usize];
                if drained {
                    c.drained_handled = true;
                    self.nodes[node as usize].by_handle.remove(&ch.0);
                }
                if let Some(cev) = resp {
                    self.conns[inc as usize].conn.handle_event(cev);
                }
            }
            // transmits
            let gso = self.nodes[node as usize].gso;
            let mut buf = Vec::with_capacity(1500 * gso);
            let mut n = 0;
            loop {
                if n >= self.drv.transmit_cap || self.hit_limit == Some("storm") {
                    break;
                }
                buf.clear();
                let mtu_before = self.conns[inc as usize].conn.current_mtu();
                let pk_from = self.tap.lock().unwrap().pkts.len();
                let before = if self.drv.track_probe { Some(self.conns[inc as usize].conn.verif_probe()) } else { None };
                let t = self.conns[inc as usize].conn.poll_transmit(now, gso, &mut buf);
                match t {
                    Some(t) => {
                        n += 1;
                        self.tx_ctx = Some((pk_from, before));
                        if self.log_on {
                            let d = self.describe_pkts(pk_from);
                            let (sz, seg, dst, dn) = (t.size, t.segment_size, t.destination, self.dgrams.len());
                            self.logf(|| format!("inc{} tx {}B seg={:?} -> {} dgram#{} {} (mtu {})", inc, sz, seg, dst, dn, d, mtu_before));
                        }
                        let b = std::mem::take(&mut buf);
                        self.emit_transmit(node, inc, t, &b, mtu_before);
                        buf = b;
                    }
                    None => {
                        if self.drv.spurious {
                            buf.clear();
                            if let Some(t) = self.conns[inc as usize].conn.poll_transmit(now, gso, &mut buf) {
                                let b = buf.clone();
                                self.emit_transmit(node, inc, t, &b, mtu_before);
                                self.violate("spurious-poll-transmit-produced-output", format!("inc{}: poll_transmit returned None and then Some at the same instant with no input in between", inc));
                            }
                        }
                        break;
                    }
                }
            }
            if self.hit_limit == Some("storm") {
                return;
            }
            // application events
            let mut evs = Vec::new();
            while let Some(e) = self.conns[inc as usize].conn.poll() {
                evs.push(e);
            }
            if self.drv.spurious {
                if let Some(e) = self.conns[inc as usize].conn.poll() {
                    evs.push(e);
                }
            }
            if evs.is_empty() {
                break;
            }
            for e in evs {
                let h = crate::chooser::mix(&[self.now, inc as u64, event_hash(&e)]);
                self.trace_item(|| format!("ev inc={} {:?}", inc, e), h);
                self.sig_mix(event_kind(&e) as u64 + 100 * (self.conns[inc as usize].side as u64 + 1));
                if let Event::ConnectionLost { reason } = &e {
                    self.conns[inc as usize].lost.push(reason.clone());
                }
                self.step_events.push((inc, event_kind(&e)));
                if matches!(e, Event::Connected) {
                    self.conns[inc as usize].connected_at = Some(self.now);
                }
                if matches!(e, Event::HandshakeDataReady) {
                    self.conns[inc as usize].hs_data_at = Some(self.now);
                }
                self.logf(|| format!("inc{} event {:?}", inc, e));
                scen.on_event(self, inc, e);
            }
        }
        // timer
        let to = self.conns[inc as usize].conn.poll_timeout().map(|i| self.to_ns(i));
        if to != self.conns[inc as usize].timer {
            let c = &mut self.conns[inc as usize];
            c.timer = to;
            c.timer_gen += 1;
            let gen = c.timer_gen;
            if self.log_on {
                let pr = self.conns[inc as usize].conn.verif_probe();
                let names = ["LossDetection", "Idle", "Close", "KeyDiscard", "PathValidation", "KeepAlive", "Pacing", "PushNewCid", "MaxAckDelay"];
                let first = pr.timers.iter().enumerate().filter_map(|(i, t)| t.map(|t| (t, names[i]))).min().map(|x| x.1).unwrap_or("-");
                let all: Vec<String> = pr.timers.iter().enumerate().filter_map(|(i, t)| t.map(|t| format!("{}={}", names[i], crate::world::fmt_t(self.to_ns(t))))).collect();
                self.logf(|| format!("inc{} timer({}) -> {:?} [in_flight={}B/{}ae window={} probes={:?} pto_count={} validated={} pto={:?} armed: {}]", inc, first, to.map(crate::world::fmt_t), pr.in_flight_bytes, pr.in_flight_ack_eliciting, pr.window, pr.loss_probes, pr.pto_count, pr.path_validated, pr.pto, all.join(" ")));
            }
            if let Some(at) = to {
                let mut at = at.max(self.now);
                if self.drv.late > 0 && self.ch.chance("drv.late", self.drv.late, 1000) {
                    at += self.ch.range_log("drv.lateby", 0, self.drv.late_max / US) * US;
                    self.faults.hit("driver_late");
                }
                self.schedule(at, Ev::Timer { inc, gen });
            }
        }
    }

    pub fn flush(&mut self, scen: &mut dyn Scenario) {
        let mut guard = 0;
        while let Some(inc) = self.dirty.pop() {
            guard += 1;
            if guard > 100_000 {
                self.violate("driver-livelock", "dirty set never empties".to_string());
                break;
            }
            self.drive_conn(inc, scen);
        }
    }

    fn fire_timer(&mut self, inc: u32, gen: u64) {
        let c = &self.conns[inc as usize];
        if c.timer_gen != gen || c.frozen {
            return;
        }
        let node = c.node;
        self.enter(node, inc);
        let now = self.instant();
        let c = &mut self.conns[inc as usize];
        c.timer = None;
        if c.last_timeout_serviced == Some(self.now) {
            c.same_instant_timeouts += 1;
        } else {
            c.same_instant_timeouts = 0;
        }
        let stuck = c.same_instant_timeouts;
        c.last_timeout_serviced = Some(self.now);
        if stuck > 32 {
            let names = ["LossDetection", "Idle", "Close", "KeyDiscard", "PathValidation", "KeepAlive", "Pacing", "PushNewCid", "MaxAckDelay"];
            let pr = self.conns[inc as usize].conn.verif_probe();
            let now_i = self.instant();
            let due: Vec<&str> = pr.timers.iter().enumerate().filter(|(_, t)| t.is_some_and(|t| t <= now_i)).map(|(i, _)| names[i]).collect();
            self.violate("timeout-does-not-converge", format!("inc{}: poll_timeout() <= now after {} consecutive handle_timeout(now) + transmit drains at the same instant (timers still due: {:?})", inc, stuck, due));
            return;
        }
        if self.log_on {
            self.log.push(format!("t={} inc{} handle_timeout", fmt_t(self.now), inc));
        }
        c.conn.handle_timeout(now);
        self.touch(inc);
    }

    /// Run until the scenario is done, a violation is found, a limit is hit or nothing is left.
    pub fn run(&mut self, scen: &mut dyn Scenario) {
        self.flush(scen);
        scen.after_step(self);
        loop {
            if !self.violations.is_empty() {
                return;
            }
            if scen.done(self) {
                return;
            }
            let Some((&(t, s), _)) = self.queue.iter().next() else {
                scen.on_quiescent(self);
                self.flush(scen);
                if self.queue.is_empty() {
                    return;
                }
                continue;
            };
            if self.step >= self.limits.max_events {
                self.hit_limit = Some("events");
                return;
            }
            if self.hit_limit == Some("storm") {
                return;
            }
            if self.step % 512 == 0 && self.deadline.is_some_and(|d| std::time::Instant::now() > d) {
                // (the campaign's wall-clock budget ran out in the middle of this world)
                self.hit_limit = Some("wall");
                return;
            }
            if t > self.limits.max_time {
                self.hit_limit = Some("time");
                return;
            }
            let ev = self.queue.remove(&(t, s)).unwrap();
            // a suspended node (a process stopped, a laptop asleep) sees its datagrams and timers
            // only when it wakes up — all at once, in their original order
            let target = match &ev {
                Ev::Deliver(id) => self.addr_map.get(&self.dgrams[*id as usize].dst).copied(),
                Ev::Timer { inc, .. } => Some(self.conns[*inc as usize].node),
                Ev::Wake(_) => None,
            };
            if let Some(until) = target.and_then(|n| self.suspended.get(&n).copied()) {
                if until > t {
                    self.schedule(until, ev);
                    continue;
                }
            }
            self.now = t;
            self.step += 1;
            self.step_events.clear();
            self.step_dgram = u32::MAX;
            match ev {
                Ev::Deliver(id) => {
                    self.step_dgram = id;
                    self.deliver(id, scen)
                }
                Ev::Timer { inc, gen } => self.fire_timer(inc, gen),
                Ev::Wake(tag) => scen.on_wake(self, tag),
            }
            self.flush(scen);
            scen.after_step(self);
            if crate::alloc::live() - self.live_at_start > self.limits.max_heap {
                let g = crate::alloc::live() - self.live_at_start;
                self.violate("world-heap-exploded", format!("the world's live heap grew by {} bytes (cap {}); last step handled datagram {:?}", g, self.limits.max_heap, self.step_dgram));
                return;
            }
        }
    }

    /// human-readable rendering of the packets the tap recorded from index `from` on
    pub fn describe_pkts(&self, from: usize) -> String {
        let t = self.tap.lock().unwrap();
        describe_pkt_list(t.pkts.iter().skip(from))
    }
}

pub fn describe_pkt_list<'a>(pkts: impl Iterator<Item = &'a crate::tap::PktRec>) -> String {
    {
        let mut out = String::new();
        for p in pkts {
            let (fr, ok) = crate::wire::frames(&p.payload);
            out.push_str(&format!("[{}{} pn={}{}", if p.enc { "" } else { if p.ok { "rx " } else { "rx-FAIL " } }, p.space.name(), p.pn, if p.rewritten { " REWRITTEN" } else { "" }));
            for f in &fr {
                match f {
                    crate::wire::Frame::Stream { id, offset, len, fin, .. } => out.push_str(&format!(" STREAM({},{}+{}{})", id, offset, len, if *fin { ",fin" } else { "" })),
                    crate::wire::Frame::Padding(n) => out.push_str(&format!(" PAD{}", n)),
                    crate::wire::Frame::Ack { largest, ranges, .. } => out.push_str(&format!(" ACK({}..{},{}r)", ranges.last().map_or(0, |r| r.0), largest, ranges.len())),
                    crate::wire::Frame::Crypto { offset, len } => out.push_str(&format!(" CRYPTO({}+{})", offset, len)),
                    crate::wire::Frame::MaxData(v) => out.push_str(&format!(" MAX_DATA({})", v)),
                    crate::wire::Frame::MaxStreamData { id, max } => out.push_str(&format!(" MAX_STREAM_DATA({},{})", id, max)),
                    crate::wire::Frame::MaxStreams { bidi, max } => out.push_str(&format!(" MAX_STREAMS({},{})", if *bidi { "bi" } else { "uni" }, max)),
                    crate::wire::Frame::ResetStream { id, code, final_size } => out.push_str(&format!(" RESET_STREAM({},code={},final={})", id, code, final_size)),
                    crate::wire::Frame::StopSending { id, code } => out.push_str(&format!(" STOP_SENDING({},code={})", id, code)),
                    crate::wire::Frame::NewConnectionId { seq, retire_prior_to, .. } => out.push_str(&format!(" NEW_CID(seq={},rpt={})", seq, retire_prior_to)),
                    crate::wire::Frame::RetireConnectionId { seq } => out.push_str(&format!(" RETIRE_CID({})", seq)),
                    crate::wire::Frame::ConnectionClose { code, reason, .. } => out.push_str(&format!(" CONNECTION_CLOSE(0x{:x},{:?})", code, String::from_utf8_lossy(reason))),
                    crate::wire::Frame::ApplicationClose { code, reason } => out.push_str(&format!(" APPLICATION_CLOSE({},{:?})", code, String::from_utf8_lossy(reason))),
                    other => {
                        out.push(' ');
                        out.push_str(other.short_name());
                    }
                }
            }
            if !ok {
                out.push_str(" <malformed>");
            }
            out.push(']');
        }
        out
    }
}

impl World {
    /// A drained connection produces no further output, whatever it is fed (C08 / C20).
    pub fn check_drained_silence(&mut self) {
        let later = self.instant() + Duration::from_secs(1);
        for i in 0..self.conns.len() {
            if !self.conns[i].conn.is_drained() {
                continue;
            }
            let node = self.conns[i].node;
            self.enter(node, i as u32);
            let c = &mut self.conns[i];
            c.conn.handle_timeout(later);
            let mut buf = Vec::new();
            let tx = c.conn.poll_transmit(later, 4, &mut buf).is_some();
            let to = c.conn.poll_timeout().is_some();
            let ev = c.conn.poll().is_some();
            let ee = c.conn.poll_endpoint_events().is_some() && c.drained_handled;
            if tx || to || ev || ee {
                self.violate("drained-connection-produced-output", format!("inc{} after is_drained(): poll_transmit={} poll_timeout={} poll={} poll_endpoint_events={}", i, tx, to, ev, ee));
                return;
            }
        }
    }

    pub fn live_conns(&self) -> impl Iterator<Item = &Conn> {
        self.conns.iter().filter(|c| !c.drained_handled)
    }
}

pub fn addr_hash(a: &SocketAddr) -> u64 {
    let mut h = a.port() as u64;
    match a.ip() {
        std::net::IpAddr::V4(v4) => {
            h = h << 32 | u32::from(v4) as u64;
        }
        std::net::IpAddr::V6(v6) => {
            for s in v6.segments() {
                h = h.wrapping_mul(31).wrapping_add(s as u64);
            }
        }
    }
    h
}

pub fn event_kind(e: &Event) -> u32 {
    use quinn_proto::StreamEvent as S;
    match e {
        Event::HandshakeDataReady => 1,
        Event::Connected => 2,
        Event::HandshakeConfirmed => 3,
        Event::ConnectionLost { .. } => 4,
        Event::Stream(S::Opened { .. }) => 5,
        Event::Stream(S::Readable { .. }) => 6,
        Event::Stream(S::Writable { .. }) => 7,
        Event::Stream(S::Finished { .. }) => 8,
        Event::Stream(S::Stopped { .. }) => 9,
        Event::Stream(S::Available { .. }) => 10,
        Event::DatagramReceived => 11,
        Event::DatagramsUnblocked => 12,
    }
}

pub fn event_hash(e: &Event) -> u64 {
    // Debug rendering is stable and contains ids/codes; good enough as a trace item
    let s = format!("{:?}", e);
    let mut h = 0xcbf29ce484222325u64;
    for b in s.bytes() {
        h = (h ^ b as u64).wrapping_mul(0x100000001b3);
    }
    h
}

pub fn fmt_t(ns: Ns) -> String {
    format!("{}.{:06}ms", ns / MS, ns % MS)
}
