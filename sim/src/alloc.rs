//! Per-thread counting allocator: a world runs start to finish on one thread, so the thread's
//! live-byte counter measures that world's heap (used by the bounded-memory oracle of C03).

use std::alloc::{GlobalAlloc, Layout, System};
use std::cell::Cell;

pub struct Counting;

thread_local! {
    static LIVE: Cell<i64> = const { Cell::new(0) };
    static PEAK: Cell<i64> = const { Cell::new(0) };
}

unsafe impl GlobalAlloc for Counting {
    unsafe fn alloc(&self, l: Layout) -> *mut u8 {
        let p = System.alloc(l);
        if !p.is_null() {
            let _ = LIVE.try_with(|c| {
                let v = c.get() + l.size() as i64;
                c.set(v);
                let _ = PEAK.try_with(|p| {
                    if v > p.get() {
                        p.set(v)
                    }
                });
            });
        }
        p
    }
    unsafe fn dealloc(&self, p: *mut u8, l: Layout) {
        System.dealloc(p, l);
        let _ = LIVE.try_with(|c| c.set(c.get() - l.size() as i64));
    }
    unsafe fn realloc(&self, p: *mut u8, l: Layout, new: usize) -> *mut u8 {
        let q = System.realloc(p, l, new);
        if !q.is_null() {
            let _ = LIVE.try_with(|c| {
                let v = c.get() + new as i64 - l.size() as i64;
                c.set(v);
                let _ = PEAK.try_with(|p| {
                    if v > p.get() {
                        p.set(v)
                    }
                });
            });
        }
        q
    }
}

pub fn live() -> i64 {
    LIVE.with(|c| c.get())
}
pub fn peak() -> i64 {
    PEAK.with(|c| c.get())
}
pub fn reset_peak() {
    let v = live();
    PEAK.with(|p| p.set(v));
}
pub fn reset_thread() {
    reset_peak();
}
