//! Campaign runner: runs many worlds of a property's scenario families in parallel, shrinks
//! the first violation, writes replay and evidence files, applies known findings.

use std::cell::RefCell;
use std::collections::{BTreeMap, BTreeSet};
use std::panic::{catch_unwind, AssertUnwindSafe};
use std::sync::atomic::{AtomicBool, AtomicU64, Ordering};
use std::sync::{Arc, Mutex};
use std::time::Instant;

use serde_json::{json, Value};

use crate::chooser::{mix, Chooser};
use crate::world::{FaultCounts, Violation};

pub struct RunOut {
    pub violations: Vec<Violation>,
    pub faults: FaultCounts,
    pub probes: FaultCounts,
    pub sig: u64,
    pub nontrivial: bool,
    pub steps: u64,
    pub sim_ns: u64,
    pub hit_limit: Option<&'static str>,
    pub panic: Option<String>,
    pub choices: Vec<u32>,
    pub log: Vec<String>,
    pub trace: Vec<u64>,
    pub stats: BTreeMap<&'static str, f64>,
    pub config: String,
}

impl RunOut {
    pub fn from_world(w: &mut crate::world::World) -> Self {
        let nontrivial = w.faults.m.values().any(|v| *v > 0) || w.conns.len() > 2;
        Self {
            violations: std::mem::take(&mut w.violations),
            faults: w.faults.clone(),
            probes: w.probes.clone(),
            sig: w.sig,
            nontrivial,
            steps: w.step,
            sim_ns: w.now,
            hit_limit: w.hit_limit,
            panic: None,
            choices: w.ch.values(),
            log: match w.trace_text.take() {
                Some(t) => t,
                None => std::mem::take(&mut w.log),
            },
            trace: std::mem::take(&mut w.trace),
            stats: BTreeMap::new(),
            config: String::new(),
        }
    }
}

pub type FamilyFn = fn(Chooser, &RunCtx) -> RunOut;

#[derive(Clone, Default)]
pub struct RunCtx {
    pub log: bool,
    pub keep_trace_text: bool,
    /// family-specific variant switch (e.g. C20 group member)
    pub variant: u32,
    /// shift every instant handed to the protocol core by this much (C20 time translation)
    pub base_shift_ns: u64,
    /// insert extra handle_timeout / poll_transmit / poll calls that must be harmless (C20)
    pub spurious: bool,
    /// real-time instant after which a world in progress is abandoned (campaign wall-clock cap)
    pub deadline: Option<Instant>,
}

pub struct Family {
    pub name: &'static str,
    pub f: FamilyFn,
    pub weight: u32,
}

pub struct PropSpec {
    pub id: &'static str,
    pub families: Vec<Family>,
    pub quick_worlds: u64,
    pub thorough_worlds: u64,
    /// whether a panic inside quinn is a violation of this property
    pub panic_is_violation: bool,
    pub rule: &'static str,
    pub assumptions: Vec<&'static str>,
    pub real: Vec<&'static str>,
    pub stub: Vec<&'static str>,
}

thread_local! {
    static LAST_PANIC: RefCell<Option<String>> = const { RefCell::new(None) };
}

pub fn install_panic_hook() {
    std::panic::set_hook(Box::new(|info| {
        let loc = info.location().map(|l| format!("{}:{}", l.file(), l.line())).unwrap_or_default();
        let msg = if let Some(s) = info.payload().downcast_ref::<&str>() {
            s.to_string()
        } else if let Some(s) = info.payload().downcast_ref::<String>() {
            s.clone()
        } else {
            "<non-string panic>".to_string()
        };
        if std::env::var_os("VERIF_PANIC_STDERR").is_some() {
            eprintln!("PANIC {} at {}", msg, loc);
        }
        LAST_PANIC.with(|p| *p.borrow_mut() = Some(format!("{} at {}", msg, loc)));
    }));
}

pub fn take_last_panic() -> Option<String> {
    LAST_PANIC.with(|p| p.borrow_mut().take())
}

pub fn run_family(f: FamilyFn, ch: Chooser, ctx: &RunCtx) -> RunOut {
    crate::chooser::DRAWN.with(|d| d.borrow_mut().clear());
    let r = catch_unwind(AssertUnwindSafe(|| f(ch, ctx)));
    match r {
        Ok(o) => o,
        Err(_) => {
            let msg = LAST_PANIC.with(|p| p.borrow_mut().take()).unwrap_or_else(|| "panic".into());
            RunOut {
                violations: Vec::new(),
                faults: FaultCounts::default(),
                probes: FaultCounts::default(),
                sig: 0,
                nontrivial: false,
                steps: 0,
                sim_ns: 0,
                hit_limit: None,
                panic: Some(msg),
                choices: crate::chooser::DRAWN.with(|d| std::mem::take(&mut *d.borrow_mut())),
                log: Vec::new(),
                trace: Vec::new(),
                stats: BTreeMap::new(),
                config: String::new(),
            }
        }
    }
}

/// classify a panic: harness bugs must not be reported as property violations
pub fn panic_in_harness(msg: &str) -> bool {
    msg.contains("/verif/sim/src") || msg.contains("src/world.rs") || msg.contains("src/app.rs") || msg.contains("src/props/") || msg.contains("src/scen.rs") || msg.contains("src/tap.rs") || msg.contains("src/wire.rs") || msg.contains("src/runner.rs") || msg.contains("src/asim")
}

#[derive(Clone, Debug)]
pub struct Found {
    pub family: usize,
    pub index: u64,
    pub seed: u64,
    pub kind: String,
    pub detail: String,
    pub choices: Vec<u32>,
}

fn first_kind(o: &RunOut, spec: &PropSpec) -> Option<(String, String)> {
    if o.hit_limit == Some("wall") {
        // abandoned in the middle because the campaign's wall-clock budget ran out: whatever its
        // end-of-world checks said is about a world that never ended
        return None;
    }
    if let Some(v) = o.violations.first() {
        return Some((v.kind.clone(), v.detail.clone()));
    }
    if let Some(p) = &o.panic {
        if panic_in_harness(p) {
            return Some(("HARNESS-PANIC".to_string(), p.clone()));
        }
        if spec.panic_is_violation {
            // strip volatile parts (numbers) from the kind so that shrinking can match it
            let loc = p.rsplit(" at ").next().unwrap_or("").to_string();
            return Some((format!("panic at {}", loc), p.clone()));
        }
    }
    None
}

pub struct Known {
    pub property: String,
    pub status: String,
    pub kind: String,
    pub contains: Vec<String>,
    pub description: String,
}

pub fn load_known(path: &str) -> Vec<Known> {
    let Ok(s) = std::fs::read_to_string(path) else { return Vec::new() };
    let Ok(v) = serde_json::from_str::<Value>(&s) else { return Vec::new() };
    let mut out = Vec::new();
    if let Some(arr) = v.get("findings").and_then(|a| a.as_array()) {
        for e in arr {
            out.push(Known {
                property: e["property"].as_str().unwrap_or("").to_string(),
                status: e["status"].as_str().unwrap_or("").to_string(),
                kind: e["match"]["kind"].as_str().unwrap_or("").to_string(),
                contains: e["match"]["detail_contains"].as_array().map(|a| a.iter().filter_map(|x| x.as_str().map(|s| s.to_string())).collect()).unwrap_or_default(),
                description: e["description"].as_str().unwrap_or("").to_string(),
            });
        }
    }
    out
}

fn shrink(spec: &PropSpec, fam: &Family, found: &Found, budget_runs: u32, budget_s: f64) -> (Vec<u32>, u32) {
    let t0 = Instant::now();
    let mut best = found.choices.clone();
    let mut runs = 0u32;
    let ctx = RunCtx::default();
    let mut fails = |c: &Vec<u32>, runs: &mut u32| -> bool {
        *runs += 1;
        let o = run_family(fam.f, Chooser::replay(c.clone()), &ctx);
        first_kind(&o, spec).is_some_and(|(k, _)| k == found.kind)
    };
    // the recorded list itself must reproduce, otherwise give up shrinking
    if !fails(&best, &mut runs) {
        return (best, runs);
    }
    // 1. drop trailing choices (replay pads with the benign default)
    let mut lo = 0usize;
    let mut hi = best.len();
    while lo < hi && runs < budget_runs && t0.elapsed().as_secs_f64() < budget_s {
        let mid = (lo + hi) / 2;
        let cand = best[..mid].to_vec();
        if fails(&cand, &mut runs) {
            hi = mid;
        } else {
            lo = mid + 1;
        }
    }
    let cand = best[..hi.min(best.len())].to_vec();
    if cand.len() < best.len() && fails(&cand, &mut runs) {
        best = cand;
    }
    // 2. zero blocks, then 3. delete blocks
    let mut block = (best.len() / 2).max(1);
    while block >= 1 && runs < budget_runs && t0.elapsed().as_secs_f64() < budget_s {
        let mut i = 0;
        while i < best.len() && runs < budget_runs && t0.elapsed().as_secs_f64() < budget_s {
            let end = (i + block).min(best.len());
            if best[i..end].iter().any(|v| *v != 0) {
                let mut cand = best.clone();
                for v in &mut cand[i..end] {
                    *v = 0;
                }
                if fails(&cand, &mut runs) {
                    best = cand;
                }
            }
            i += block;
        }
        if block == 1 {
            break;
        }
        block /= 2;
    }
    // strip trailing zeros (equivalent under replay)
    while best.last() == Some(&0) {
        best.pop();
    }
    (best, runs)
}

pub struct CheckResult {
    pub exit: i32,
}

pub fn seed_for(verif_seed: u64, prop: &str, fam: usize, i: u64) -> u64 {
    mix(&[verif_seed, crate::util::fnv(prop.as_bytes()), fam as u64, i])
}

pub fn run_check(spec: &PropSpec, tier: &str, verif_seed: u64, verif_dir: &str) -> i32 {
    let t0 = Instant::now();
    let total = if tier == "thorough" { spec.thorough_worlds } else { spec.quick_worlds };
    let total = std::env::var("VERIF_WORLDS").ok().and_then(|s| s.parse().ok()).unwrap_or(total);
    let wall_cap: f64 = std::env::var("VERIF_WALL_CAP_S").ok().and_then(|s| s.parse().ok()).unwrap_or(if tier == "thorough" { 3000.0 } else { 420.0 });
    println!("property={} tier={} VERIF_SEED={} worlds={}", spec.id, tier, verif_seed, total);
    let weights: Vec<u32> = spec.families.iter().map(|f| f.weight).collect();
    let wsum: u32 = weights.iter().sum();
    // development aid: explore a single family (never set by the registered commands)
    let only_family: Option<usize> = std::env::var("VERIF_FAMILY").ok().and_then(|n| spec.families.iter().position(|f| f.name == n));
    let fam_of = |i: u64| -> usize {
        if let Some(k) = only_family {
            return k;
        }
        let mut x = (mix(&[i, 0xFA7]) % wsum as u64) as u32;
        for (k, w) in weights.iter().enumerate() {
            if x < *w {
                return k;
            }
            x -= *w;
        }
        0
    };
    let known = load_known(&format!("{}/known_findings.json", verif_dir));
    let is_known = |kind: &str, detail: &str| known.iter().any(|k| k.property == spec.id && k.status == "known" && k.kind == kind && k.contains.iter().all(|c| detail.contains(c.as_str())));
    let next = AtomicU64::new(0);
    let stop = AtomicBool::new(false);
    let agg = Mutex::new(Agg::default());
    let trace_worlds = std::env::var("VERIF_TRACE_WORLDS").is_ok();
    let threads: usize = std::env::var("VERIF_THREADS").ok().and_then(|s| s.parse().ok()).unwrap_or(16);
    std::thread::scope(|s| {
        for _ in 0..threads {
            s.spawn(|| {
                crate::alloc::reset_thread();
                let ctx = RunCtx { deadline: Some(t0 + std::time::Duration::from_secs_f64(wall_cap + 20.0)), ..Default::default() };
                let mut local = Agg::default();
                loop {
                    if stop.load(Ordering::Relaxed) {
                        break;
                    }
                    let i = next.fetch_add(1, Ordering::Relaxed);
                    if i >= total {
                        break;
                    }
                    if t0.elapsed().as_secs_f64() > wall_cap {
                        local.capped = true;
                        break;
                    }
                    let fi = fam_of(i);
                    let seed = seed_for(verif_seed, spec.id, fi, i);
                    if trace_worlds {
                        eprintln!("WORLD i={} family={} seed={}", i, spec.families[fi].name, seed);
                    }
                    let o = run_family(spec.families[fi].f, Chooser::generate(seed), &ctx);
                    if trace_worlds {
                        eprintln!("WORLD-DONE i={}", i);
                    }
                    local.absorb(&o, fi);
                    if let Some((kind, detail)) = first_kind(&o, spec) {
                        if is_known(&kind, &detail) {
                            // a listed finding: keep one representative per family and kind, and
                            // keep exploring (it must not shorten the campaign)
                            local.known_hits += 1;
                            if !local.found.iter().any(|f| f.family == fi && f.kind == kind) {
                                local.found.push(Found { family: fi, index: i, seed, kind, detail, choices: o.choices.clone() });
                            }
                        } else {
                            local.found.push(Found { family: fi, index: i, seed, kind, detail, choices: o.choices.clone() });
                            local.unknown_found += 1;
                            if local.unknown_found >= 4 {
                                stop.store(true, Ordering::Relaxed);
                            }
                        }
                    }
                }
                agg.lock().unwrap().merge(local);
            });
        }
    });
    let mut agg = agg.into_inner().unwrap();
    agg.found.sort_by_key(|f| f.index);
    let wall = t0.elapsed().as_secs_f64();

    // samples: re-run the first three worlds with logging
    let mut samples = Vec::new();
    for i in 0..3.min(total) {
        let fi = fam_of(i);
        let seed = seed_for(verif_seed, spec.id, fi, i);
        let o = run_family(spec.families[fi].f, Chooser::generate(seed), &RunCtx { log: true, ..Default::default() });
        samples.push(json!({
            "family": spec.families[fi].name,
            "world_seed": seed,
            "config": o.config,
            "n_choices": o.choices.len(),
            "steps": o.steps,
            "sim_time_ms": o.sim_ns as f64 / 1e6,
            "faults_fired": o.faults.m,
            "log_head": o.log.iter().take(40).collect::<Vec<_>>(),
        }));
    }

    let mut exit = 0;
    let mut reported = BTreeSet::new();
    let mut violations = 0;
    let mut harness_errors = 0;
    for f in &agg.found {
        if !reported.insert((f.family, f.kind.clone())) {
            continue;
        }
        if f.kind == "HARNESS-PANIC" {
            eprintln!("HARNESS ERROR family={} seed={} {}", spec.families[f.family].name, f.seed, f.detail);
            harness_errors += 1;
            continue;
        }
        let fam = &spec.families[f.family];
        let (choices, shrink_runs) = shrink(spec, fam, f, 400, 25.0);
        // regenerate detail + log from the minimised choices
        let o = run_family(fam.f, Chooser::replay(choices.clone()), &RunCtx { log: true, ..Default::default() });
        let (kind, detail) = first_kind(&o, spec).unwrap_or((f.kind.clone(), f.detail.clone()));
        let stable = kind == f.kind;
        let is_known = known.iter().find(|k| k.property == spec.id && k.status == "known" && k.kind == kind && k.contains.iter().all(|c| detail.contains(c.as_str())));
        let digest = format!("{:016x}", mix(&[crate::util::fnv(kind.as_bytes()), f.seed]));
        let path = format!("{}/replays/{}-{}.json", verif_dir, spec.id, &digest[..12]);
        let log_tail: Vec<&String> = o.log.iter().rev().take(200).collect::<Vec<_>>().into_iter().rev().collect();
        let replay = json!({
            "property": spec.id,
            "kind": kind,
            "detail": detail,
            "family": fam.name,
            "original_seed": f.seed,
            "verif_seed": verif_seed,
            "world_index": f.index,
            "shrunk_from": f.choices.len(),
            "shrink_runs": shrink_runs,
            "stable": stable,
            "choices": choices,
            "log": log_tail,
        });
        let _ = std::fs::create_dir_all(format!("{}/replays", verif_dir));
        let _ = std::fs::write(&path, serde_json::to_string_pretty(&replay).unwrap());
        if !stable {
            eprintln!("UNSTABLE replay for {}/{} (family {}, seed {}): harness error", spec.id, f.kind, fam.name, f.seed);
            harness_errors += 1;
            continue;
        }
        if let Some(k) = is_known {
            println!("KNOWN-FINDING: property={} {} :: {}", spec.id, kind, k.description);
        } else {
            println!("VIOLATION property={} replay={}", spec.id, path);
            println!("  kind={} family={} seed={} choices={} (shrunk from {})", kind, fam.name, f.seed, choices.len(), f.choices.len());
            println!("  {}", detail);
            violations += 1;
            exit = 1;
        }
    }
    if harness_errors > 0 && exit == 0 {
        exit = 2;
    }

    // evidence
    let per_family: BTreeMap<&str, u64> = spec.families.iter().enumerate().map(|(i, f)| (f.name, *agg.per_family.get(&i).unwrap_or(&0))).collect();
    let never: Vec<&&'static str> = agg.expected_probes.iter().filter(|p| !agg.probes.m.contains_key(*p)).collect();
    let ev = json!({
        "property_id": spec.id,
        "tier": tier,
        "seed": verif_seed,
        "level": "exploration",
        "coverage": {
            "evaluations": agg.worlds,
            "distinct_nontrivial": agg.sigs.len(),
            "rule": spec.rule,
            "samples": samples,
            "worlds_per_family": per_family,
            "runs_per_hour": if wall > 0.0 { agg.worlds as f64 / wall * 3600.0 } else { 0.0 },
            "sim_time_covered_s": agg.sim_ns as f64 / 1e9,
            "events_processed": agg.steps,
            "max_events_per_world": agg.max_steps,
            "faults_fired": agg.faults.m,
            "probes_hit": agg.probes.m,
            "probes_never_hit": never,
            "aborted_by_panic": agg.panics,
            "panic_samples": agg.panic_samples,
            "hit_limit": agg.limits,
            "stats_max": agg.stats_max,
            "stats_sum": agg.stats_sum,
            "wall_capped": agg.capped,
            "known_finding_hits": agg.known_hits,
            "components": { "real": spec.real, "stub": spec.stub },
            "threads": threads,
        },
        "assumptions": spec.assumptions,
        "wall_s": wall,
        "violations": violations,
    });
    let _ = std::fs::create_dir_all(format!("{}/evidence", verif_dir));
    let evpath = format!("{}/evidence/{}.json", verif_dir, spec.id);
    std::fs::write(&evpath, serde_json::to_string_pretty(&ev).unwrap()).expect("write evidence");
    println!(
        "worlds={} distinct_nontrivial={} sim_time={:.1}s events={} panics={} wall={:.1}s ({:.0} worlds/s) violations={} exit={}",
        agg.worlds,
        agg.sigs.len(),
        agg.sim_ns as f64 / 1e9,
        agg.steps,
        agg.panics,
        wall,
        agg.worlds as f64 / wall.max(1e-9),
        violations,
        exit
    );
    exit
}

#[derive(Default)]
struct Agg {
    worlds: u64,
    sigs: BTreeSet<u64>,
    sim_ns: u64,
    steps: u64,
    max_steps: u64,
    faults: FaultCounts,
    probes: FaultCounts,
    panics: u64,
    panic_samples: Vec<String>,
    limits: BTreeMap<&'static str, u64>,
    found: Vec<Found>,
    per_family: BTreeMap<usize, u64>,
    stats_max: BTreeMap<&'static str, f64>,
    stats_sum: BTreeMap<&'static str, f64>,
    expected_probes: BTreeSet<&'static str>,
    capped: bool,
    known_hits: u64,
    unknown_found: u64,
}

impl Agg {
    fn absorb(&mut self, o: &RunOut, fam: usize) {
        self.worlds += 1;
        *self.per_family.entry(fam).or_insert(0) += 1;
        if o.nontrivial {
            self.sigs.insert(o.sig);
        }
        self.sim_ns += o.sim_ns;
        self.steps += o.steps;
        self.max_steps = self.max_steps.max(o.steps);
        self.faults.add(&o.faults);
        self.probes.add(&o.probes);
        if let Some(p) = &o.panic {
            self.panics += 1;
            if self.panic_samples.len() < 5 {
                self.panic_samples.push(p.clone());
            }
        }
        if let Some(l) = o.hit_limit {
            *self.limits.entry(l).or_insert(0) += 1;
        }
        for (k, v) in &o.stats {
            let e = self.stats_max.entry(k).or_insert(f64::MIN);
            if *v > *e {
                *e = *v;
            }
            *self.stats_sum.entry(k).or_insert(0.0) += *v;
        }
    }
    fn merge(&mut self, o: Agg) {
        self.worlds += o.worlds;
        self.sigs.extend(o.sigs);
        self.sim_ns += o.sim_ns;
        self.steps += o.steps;
        self.max_steps = self.max_steps.max(o.max_steps);
        self.faults.add(&o.faults);
        self.probes.add(&o.probes);
        self.panics += o.panics;
        for p in o.panic_samples {
            if self.panic_samples.len() < 5 {
                self.panic_samples.push(p);
            }
        }
        for (k, v) in o.limits {
            *self.limits.entry(k).or_insert(0) += v;
        }
        self.found.extend(o.found);
        for (k, v) in o.per_family {
            *self.per_family.entry(k).or_insert(0) += v;
        }
        for (k, v) in o.stats_max {
            let e = self.stats_max.entry(k).or_insert(f64::MIN);
            if v > *e {
                *e = v;
            }
        }
        for (k, v) in o.stats_sum {
            *self.stats_sum.entry(k).or_insert(0.0) += v;
        }
        self.capped |= o.capped;
        self.known_hits += o.known_hits;
        self.unknown_found += o.unknown_found;
    }
}

pub fn replay_file(specs: &[PropSpec], path: &str) -> i32 {
    let s = match std::fs::read_to_string(path) {
        Ok(s) => s,
        Err(e) => {
            eprintln!("cannot read {}: {}", path, e);
            return 2;
        }
    };
    let v: Value = match serde_json::from_str(&s) {
        Ok(v) => v,
        Err(e) => {
            eprintln!("bad replay file: {}", e);
            return 2;
        }
    };
    let prop = v["property"].as_str().unwrap_or("");
    let famname = v["family"].as_str().unwrap_or("");
    let kind = v["kind"].as_str().unwrap_or("");
    let choices: Vec<u32> = v["choices"].as_array().map(|a| a.iter().map(|x| x.as_u64().unwrap_or(0) as u32).collect()).unwrap_or_default();
    let Some(spec) = specs.iter().find(|s| s.id == prop) else {
        eprintln!("unknown property {}", prop);
        return 2;
    };
    let Some(fam) = spec.families.iter().find(|f| f.name == famname) else {
        eprintln!("unknown family {}", famname);
        return 2;
    };
    let o = run_family(fam.f, Chooser::replay(choices), &RunCtx { log: true, ..Default::default() });
    for l in &o.log {
        println!("{}", l);
    }
    println!("config: {}", o.config);
    match first_kind(&o, spec) {
        Some((k, d)) => {
            println!("reproduced kind={} :: {}", k, d);
            if k == kind {
                println!("VIOLATION property={} replay={}", prop, path);
                1
            } else {
                println!("(different kind than recorded: {})", kind);
                1
            }
        }
        None => {
            println!("no violation on replay (recorded kind: {})", kind);
            0
        }
    }
}

pub struct Shared<T>(pub Arc<Mutex<T>>);
