//! The generic client/server scenario most property checks are built on: N client endpoints
//! connecting to one server endpoint, an event-driven workload on every connection, a fault
//! phase followed by a clean phase, optional timed auxiliary operations, pluggable oracles.

use std::sync::Arc;
use std::time::Duration;

use quinn_proto::{Dir, Endpoint, Event, VarInt};

use crate::app::{draw_plans, Workload, WorkloadCfg};
use crate::cfgs::{self, EpOpts, SimTime, TKnobs};
use crate::tap::NO_INC;
use crate::world::{IncomingAction, Ns, Scenario, World, MS, SEC};

pub trait Oracle {
    fn after_step(&mut self, _w: &mut World, _wl: &Workload) {}
    fn at_end(&mut self, _w: &mut World, _wl: &Workload) {}
}

pub const TAG_CLEAN: u64 = 1 << 40;
pub const TAG_OP: u64 = 2 << 40;
pub const TAG_CONNECT: u64 = 3 << 40;
pub const TAG_FAULTS_ON: u64 = 4 << 40;
pub const TAG_ANCHORED: u64 = 7 << 40;
pub const TAG_USER: u64 = 8 << 40;

#[derive(Clone, Debug)]
pub enum TimedOp {
    KeyUpdate { client: bool },
    Ping { client: bool },
    SetRecvWindow { client: bool, v: u64 },
    SetSendWindow { client: bool, v: u64 },
    SetMaxStreams { client: bool, uni: bool, n: u64 },
    SetLinkMtu(usize),
    Partition { ms: u64, both: bool },
    Rebind { full: bool },
    Close { client: bool, code: u64 },
    /// the endpoint's process is stopped for a while: no datagram and no timer reaches it
    Suspend { client: bool, ms: u64 },
}

#[derive(Clone, Debug)]
pub struct BasicOpts {
    pub n_clients: u32,
    pub conns_per_client: u32,
    pub streams_max: u32,
    pub size_max: u64,
    pub reset_rate: u32,
    pub leave_rate: u32,
    pub server_plans: bool,
    pub wl: WorkloadCfg,
    /// swarm: which fault kinds may be enabled at all
    pub allow_drop: bool,
    pub allow_dup: bool,
    pub allow_reorder: bool,
    pub allow_corrupt: bool,
    pub allow_ce: bool,
    pub allow_late: bool,
    pub max_drop: u32,
    pub fault_phase_max_ms: u64,
    pub ops_max: u32,
    pub op_kinds: Vec<u8>,
    pub idle_off: bool,
    pub big_cert: bool,
    pub server_migration: bool,
    pub retry: u32,
    pub use_tap: bool,
    pub fixed_knobs: Option<(TKnobs, TKnobs)>,
    pub cid_len_choices: Vec<usize>,
    pub cid_lifetime_ms: Option<u64>,
    /// virtual time allowed after the fault phase ended (a backstop: PTO back-off accumulated
    /// during the fault phase times an RTT estimate inflated by held-back packets can legitimately
    /// reach minutes; the decisive liveness oracle is quiescence, not this bound)
    pub clean_budget: Ns,
    /// time used to size workloads so that they are feasible under tiny windows
    pub plan_time: Ns,
    /// probability x/1000 of pad_to_mtu on a side
    pub pad_rate: u32,
    /// probability x/1000 of the harness congestion controller on a side
    pub harness_cc_rate: u32,
    /// directed loss among the first K datagrams on the wire (0 = off)
    pub directed_k: u32,
    pub directed_max: u32,
    /// probability x/1000 that keep-alive is configured on a side
    pub keepalive_rate: u32,
    /// idle timeouts to draw from when `idle_off` is false (per side)
    pub idle_choices: Vec<Option<u64>>,
    /// ServerConfig::{max_incoming, incoming_buffer_size, incoming_buffer_size_total}
    pub incoming_limits: Option<(usize, u64, u64)>,
    /// clients pad every 1-RTT datagram to the MTU (room for the tap to overwrite plaintext)
    pub force_client_pad: bool,
    /// the fault phase begins this late (the network is clean before)
    pub fault_start: Ns,
    /// rustls server configuration to use instead of the default one
    pub server_tls: Option<quinn_proto::rustls::ServerConfig>,
    /// max_udp_payload_size values an endpoint may advertise (one entry: no draw)
    pub udp_payload_choices: Vec<u16>,
    /// link MTU at the start of the world (one entry: no draw)
    pub link_mtu_choices: Vec<usize>,
    /// unreliable-datagram application on every connection
    pub dgram: Option<crate::dgram::DgCfg>,
    /// the world is not complete before every timed operation has run
    pub run_all_ops: bool,
    /// probability x/1000 of operations anchored to the moment a side reports `Connected`
    /// (key updates and pings a drawn, short delay after it: the window before the handshake
    /// is confirmed, and back-to-back key updates, are otherwise hit by luck only)
    pub anchored_rate: u32,
}

impl Default for BasicOpts {
    fn default() -> Self {
        Self {
            n_clients: 1,
            conns_per_client: 1,
            streams_max: 6,
            size_max: 40_000,
            reset_rate: 100,
            leave_rate: 0,
            server_plans: true,
            wl: WorkloadCfg { unordered: 200, stop: 100, resp_max: 20_000, check_data: true, strict_api: true, lazy: 0 },
            allow_drop: true,
            allow_dup: true,
            allow_reorder: true,
            allow_corrupt: true,
            allow_ce: true,
            allow_late: true,
            max_drop: 300,
            fault_phase_max_ms: 3000,
            ops_max: 4,
            op_kinds: vec![0, 1, 2, 3, 4],
            idle_off: true,
            big_cert: false,
            server_migration: true,
            retry: 100,
            use_tap: true,
            fixed_knobs: None,
            cid_len_choices: vec![8, 8, 4, 1, 0, 20],
            cid_lifetime_ms: None,
            clean_budget: 3 * 3600 * SEC,
            plan_time: 120 * SEC,
            pad_rate: 0,
            harness_cc_rate: 0,
            directed_k: 0,
            directed_max: 2,
            keepalive_rate: 0,
            idle_choices: vec![Some(30_000)],
            incoming_limits: None,
            force_client_pad: false,
            fault_start: 0,
            server_tls: None,
            udp_payload_choices: vec![1472],
            link_mtu_choices: vec![65_535],
            dgram: None,
            run_all_ops: false,
            anchored_rate: 150,
        }
    }
}

pub struct Basic {
    pub opts: BasicOpts,
    pub wl: Workload,
    pub oracles: Vec<Box<dyn Oracle>>,
    pub server: u32,
    pub clients: Vec<u32>,
    pub client_incs: Vec<u32>,
    pub ops: Vec<(Ns, TimedOp)>,
    pub fault_end: Ns,
    pub clean: bool,
    pub retry_first: bool,
    pub clock: Arc<SimTime>,
    pub server_knobs: TKnobs,
    pub client_knobs: TKnobs,
    pub client_cfgs: Vec<quinn_proto::ClientConfig>,
    pub server_addr: std::net::SocketAddr,
    pub completed_at: Option<Ns>,
    pub server_plans_n: u32,
    /// bytes a client / server application may plan to send (feasibility under tiny windows)
    pub budget_c: u64,
    pub budget_s: u64,
    /// max_udp_payload_size advertised by the server / by each client endpoint
    pub udp_payload_s: u16,
    pub udp_payload_c: Vec<u16>,
    pub dg: Option<crate::dgram::DgramLoad>,
    /// (anchored to the client's `Connected`?, delay, operation, armed)
    pub anchored: Vec<(bool, Ns, TimedOp, bool)>,
}

impl Basic {
    pub fn build(w: &mut World, opts: BasicOpts) -> Self {
        let clock = SimTime::new();
        let (mut sk, mut ck) = match &opts.fixed_knobs {
            Some((s, c)) => (s.clone(), c.clone()),
            None => {
                if w.ch.chance("basic.default_knobs", 1, 3) {
                    (TKnobs::default(), TKnobs::default())
                } else {
                    (TKnobs::draw(&mut w.ch), TKnobs::draw(&mut w.ch))
                }
            }
        };
        if opts.op_kinds.contains(&7) {
            // Path validation gives up after three probe timeouts, which on a fast path is a few
            // milliseconds; a rate cap that spaces full-size datagrams further apart than that
            // (50 kB/s: 24 ms per padded PATH_RESPONSE) makes every validation fail, and since
            // the late response itself looks like a new migration the two ends go round in
            // circles for ever (an artefact of the knob combination, see DESIGN.md §A.4): worlds
            // with migration keep the cap at 1 MB/s or above.
            for k in [&mut sk, &mut ck] {
                if k.pacing_cap.is_some_and(|c| c < 1_000_000) {
                    k.pacing_cap = Some(1_000_000);
                }
            }
        }
        if opts.idle_off {
            sk.idle_ms = None;
            ck.idle_ms = None;
        } else if !opts.idle_choices.is_empty() {
            sk.idle_ms = *w.ch.pick("basic.idle_s", &opts.idle_choices);
            ck.idle_ms = *w.ch.pick("basic.idle_c", &opts.idle_choices);
        }
        for k in [&mut sk, &mut ck] {
            if w.ch.chance("basic.pad_to_mtu", opts.pad_rate, 1000) {
                k.pad_to_mtu = true;
            }
            if w.ch.chance("basic.harness_cc", opts.harness_cc_rate, 1000) {
                k.harness_cc = Some((*w.ch.pick("basic.harness_cc.base", &[12_000u64, 2400, 3000, 5000, 100_000, 10_000_000]), w.ch.chance("basic.harness_cc.osc", 1, 2)));
            }
            if w.ch.chance("basic.keepalive", opts.keepalive_rate, 1000) {
                k.keep_alive_ms = Some(*w.ch.pick("basic.keepalive_ms", &[1000u64, 10, 100, 5000]));
            }
        }
        if opts.force_client_pad {
            ck.pad_to_mtu = true;
        }
        if opts.directed_k > 0 {
            let n = 1 + w.ch.choose("basic.directed_n", opts.directed_max);
            for _ in 0..n {
                let o = w.ch.choose("basic.directed_ord", opts.directed_k);
                w.net.drop_ordinals.insert(o);
            }
        }
        // server endpoint
        // zero-length CIDs route by address tuple: only usable when no two connections share one
        // very short CIDs may collide between concurrent handshakes (documented in Endpoint::retry:
        // "both will fail fast"): with several connections use at least 4 bytes
        let multi = opts.conns_per_client > 1 || opts.n_clients > 1;
        let cid_choices: Vec<usize> = opts.cid_len_choices.iter().copied().filter(|l| (*l != 0 || opts.conns_per_client == 1) && (*l == 0 || *l >= 4 || !multi || opts.retry == 0)).collect();
        let cid_len = *w.ch.pick("basic.cid_len", &cid_choices);
        let gso_s = 1 + w.ch.choose("basic.gso_s", 10) as usize;
        let sep = EpOpts { seed: 0x5E47 ^ w.ch.choose("basic.epseed", 1 << 16) as u64, cid_len, cid_lifetime: opts.cid_lifetime_ms.map(Duration::from_millis), max_udp_payload: *w.ch.pick("basic.udp_payload_s", &opts.udp_payload_choices), ..Default::default() };
        w.net.mtu = *w.ch.pick("basic.link_mtu", &opts.link_mtu_choices);
        let st = Arc::new(sk.build());
        let tls_s = opts.server_tls.clone().unwrap_or_else(|| cfgs::rustls_server(opts.big_cert, true));
        let crypto_s = if opts.use_tap { cfgs::tapped_server_crypto(&w.tap, 0, tls_s) } else { cfgs::untapped_server_crypto(tls_s) };
        let mut scfg = cfgs::server_config(crypto_s, 0x70, st, clock.clone());
        scfg.migration(opts.server_migration);
        if let Some((n, per, total)) = opts.incoming_limits {
            scfg.max_incoming(n).incoming_buffer_size(per).incoming_buffer_size_total(total);
        }
        let server_ep = Endpoint::new(Arc::new(cfgs::endpoint_config(&sep)), Some(Arc::new(scfg)), true);
        let server_addr = cfgs::addr(0, 0);
        let server = w.add_node(server_ep, server_addr, cid_len, gso_s);
        w.reset_key_seeds.insert(server, sep.reset_key_seed);
        let retry_first = w.ch.chance("basic.retry", opts.retry, 1000);

        let mut clients = Vec::new();
        let mut client_cfgs = Vec::new();
        let mut udp_payload_c = Vec::new();
        let ct = Arc::new(ck.build());
        for i in 0..opts.n_clients {
            let node_id = 1 + i;
            let ccid = *w.ch.pick("basic.ccid_len", &cid_choices);
            let gso_c = 1 + w.ch.choose("basic.gso_c", 10) as usize;
            let cep = EpOpts { seed: 0xC11E ^ (i as u64) << 20 ^ w.ch.choose("basic.cepseed", 1 << 16) as u64, cid_len: ccid, cid_lifetime: opts.cid_lifetime_ms.map(Duration::from_millis), reset_key_seed: 100 + i as u64, max_udp_payload: *w.ch.pick("basic.udp_payload_c", &opts.udp_payload_choices), ..Default::default() };
            udp_payload_c.push(cep.max_udp_payload);
            let ep = Endpoint::new(Arc::new(cfgs::endpoint_config(&cep)), None, true);
            let n = w.add_node(ep, cfgs::addr(node_id, 0), ccid, gso_c);
            w.reset_key_seeds.insert(n, cep.reset_key_seed);
            clients.push(n);
            let crypto_c = if opts.use_tap { cfgs::tapped_client_crypto(&w.tap, n, cfgs::rustls_client(true)) } else { cfgs::untapped_client_crypto(cfgs::rustls_client(true)) };
            client_cfgs.push(cfgs::client_config(crypto_c, ct.clone(), 0xDC1D ^ i as u64));
        }

        // fault phase
        let fault_ms = if opts.fault_phase_max_ms == 0 || w.ch.chance("basic.fault_free", 1, 6) { 0 } else { w.ch.range("basic.fault_ms", 1, opts.fault_phase_max_ms) };
        let fault_end = if fault_ms > 0 { opts.fault_start + fault_ms * MS } else { 0 };
        w.net.base_delay = *w.ch.pick("basic.delay", &[5 * MS, MS, 20 * MS, 100 * MS, 400 * MS, 50_000]);
        if opts.op_kinds.contains(&7) {
            // Path validation gives up after three probe timeouts computed from the configured
            // initial RTT (the new path has no samples, and the old one may have none either). A
            // peer configured with an initial RTT far below the real one can therefore never
            // validate a path — and, every packet on an unvalidated path carrying a challenge
            // and every challenge drawing a padded response, the two ends then feed each other
            // packets for ever. That is what `initial_rtt` is for (RFC 9000 §8.2.4 recommends
            // 333 ms): worlds with migration keep the round trip within the configured value.
            let irtt = sk.initial_rtt_ms.min(ck.initial_rtt_ms) * MS;
            w.net.base_delay = w.net.base_delay.min(irtt / 2);
        }
        if fault_ms > 0 {
            if opts.fault_start == 0 {
                w.net.faults = true;
            } else {
                w.wake_at(opts.fault_start, TAG_FAULTS_ON);
            }
            // swarm: each kind enabled with probability 1/2, most at low rates
            if opts.allow_drop && w.ch.chance("swarm.drop", 1, 2) {
                w.net.drop = *w.ch.pick("rate.drop", &[20u32, 5, 50, 100, 200, 400]).min(&opts.max_drop);
            }
            if opts.allow_dup && w.ch.chance("swarm.dup", 1, 2) {
                w.net.dup = *w.ch.pick("rate.dup", &[20u32, 5, 100, 300]);
            }
            if opts.allow_reorder && w.ch.chance("swarm.reorder", 1, 2) {
                w.net.reorder = *w.ch.pick("rate.reorder", &[30u32, 5, 100, 300]);
                w.net.jitter = *w.ch.pick("rate.jitter", &[0, MS, 10 * MS, 100 * MS]);
            }
            if opts.allow_corrupt && w.ch.chance("swarm.corrupt", 1, 3) {
                w.net.corrupt = *w.ch.pick("rate.corrupt", &[10u32, 3, 50, 150]);
            }
            if opts.allow_ce && w.ch.chance("swarm.ce", 1, 3) {
                w.net.ce = *w.ch.pick("rate.ce", &[50u32, 10, 300, 1000]);
                w.net.bleach = w.ch.chance("swarm.bleach", 1, 4);
            }
            if opts.allow_late && w.ch.chance("swarm.late", 1, 3) {
                w.drv.late = *w.ch.pick("rate.late", &[100u32, 20, 500]);
                w.drv.late_max = *w.ch.pick("rate.late_max", &[MS, 100_000, 20 * MS, 200 * MS]);
            }
        }
        // A corrupted client Initial can draw a Version Negotiation packet, after which the pinned
        // tree's client refuses every Retry (finding D6, judged by C04 only): keep the two apart
        // in the generic scenario so that other checks do not trip over it.
        let retry_first = retry_first && w.net.corrupt == 0;
        w.wake_at(fault_end, TAG_CLEAN);

        // timed auxiliary operations
        let mut ops = Vec::new();
        let n_ops = if opts.ops_max == 0 { 0 } else { w.ch.range("basic.n_ops", 0, opts.ops_max as u64) };
        let horizon = (fault_end + 2 * SEC).max(SEC);
        for _ in 0..n_ops {
            let at = w.ch.range("op.at_ms", 0, horizon / MS) * MS + w.ch.range("op.at_us", 0, 999) * 1000;
            let client = w.ch.chance("op.client", 1, 2);
            let kind = *w.ch.pick("op.kind", &opts.op_kinds);
            let op = match kind {
                0 => TimedOp::KeyUpdate { client },
                1 => TimedOp::Ping { client },
                2 => TimedOp::SetRecvWindow { client, v: *w.ch.pick("op.rwnd", &[1_000_000u64, 1, 100, 5000, 100_000]) },
                3 => TimedOp::SetSendWindow { client, v: *w.ch.pick("op.swnd", &[1_000_000u64, 1, 100, 5000, 100_000]) },
                4 => TimedOp::SetMaxStreams { client, uni: w.ch.chance("op.uni", 1, 2), n: *w.ch.pick("op.maxstreams", &[10u64, 1, 2, 100]) },
                5 => TimedOp::SetLinkMtu(*w.ch.pick("op.mtu", &[1500usize, 1200, 1250, 1350, 1452, 2000, 9000])),
                6 => TimedOp::Partition { ms: w.ch.range_log("op.part_ms", 1, 4000), both: w.ch.chance("op.part_both", 1, 2) },
                7 => TimedOp::Rebind { full: w.ch.chance("op.rebind_full", 1, 2) },
                9 => TimedOp::Suspend { client, ms: w.ch.range_log("op.suspend_ms", 1, 5000) },
                _ => TimedOp::Close { client, code: w.ch.range("op.close_code", 0, 100) },
            };
            ops.push((at, op));
        }
        for (i, (at, _)) in ops.iter().enumerate() {
            w.wake_at(*at, TAG_OP + i as u64);
        }

        // operations anchored to `Connected`
        let mut anchored = Vec::new();
        if opts.op_kinds.contains(&0) && w.ch.chance("basic.anchored", opts.anchored_rate, 1000) {
            let n = 1 + w.ch.choose("anchored.n", 3);
            let at_client = w.ch.chance("anchored.side", 1, 2);
            for _ in 0..n {
                let delay = *w.ch.pick("anchored.delay", &[0, 1000, w.net.base_delay / 2, w.net.base_delay, 2 * w.net.base_delay + MS, 10 * w.net.base_delay]);
                let client = w.ch.chance("anchored.op_client", 1, 2) == at_client;
                let op = if w.ch.chance("anchored.ping", 1, 4) { TimedOp::Ping { client } } else { TimedOp::KeyUpdate { client } };
                anchored.push((at_client, delay, op, false));
            }
        }

        // feasibility: how many bytes can a sender move within the clean-phase budget when the
        // smallest window it will ever face allows `min_w` bytes per round trip
        let rtts = (opts.plan_time / (2 * w.net.base_delay + w.net.jitter + 60 * MS)).max(1);
        let min_with_ops = |k_recv: &TKnobs, k_send: &TKnobs, recv_is_client: bool| -> u64 {
            let mut m = k_recv.stream_window.min(k_recv.conn_window).min(k_send.send_window);
            for (_, op) in &ops {
                match op {
                    TimedOp::SetRecvWindow { client, v } if *client == recv_is_client => m = m.min(*v),
                    TimedOp::SetSendWindow { client, v } if *client != recv_is_client => m = m.min(*v),
                    _ => {}
                }
            }
            m.max(1)
        };
        let budget_c = min_with_ops(&sk, &ck, false).saturating_mul(rtts / 8 + 1);
        let budget_s = min_with_ops(&ck, &sk, true).saturating_mul(rtts / 8 + 1);
        let mut this = Self {
            budget_c,
            budget_s,
            udp_payload_s: sep.max_udp_payload,
            udp_payload_c,
            dg: opts.dgram.clone().map(|c| crate::dgram::DgramLoad::new(c, sk.clone(), ck.clone())),
            wl: Workload::new(opts.wl.clone()),
            oracles: Vec::new(),
            server,
            clients,
            client_incs: Vec::new(),
            ops,
            fault_end,
            clean: false,
            retry_first,
            clock,
            server_knobs: sk,
            client_knobs: ck,
            client_cfgs,
            server_addr,
            completed_at: None,
            server_plans_n: 0,
            anchored,
            opts,
        };
        // connections: the first immediately, others at chosen instants
        for ci in 0..this.clients.len() {
            for k in 0..this.opts.conns_per_client {
                if ci == 0 && k == 0 {
                    this.start_conn(w, 0);
                } else {
                    let at = w.ch.range_log("basic.connect_at_ms", 0, 2000) * MS;
                    w.wake_at(at, TAG_CONNECT + ci as u64);
                }
            }
        }
        this
    }

    pub fn start_conn(&mut self, w: &mut World, ci: usize) -> Option<u32> {
        let node = self.clients[ci];
        let cfg = self.client_cfgs[ci].clone();
        match w.connect(node, cfg, self.server_addr, "localhost") {
            Ok(inc) => {
                let dirs = (self.server_knobs.max_bidi > 0, self.server_knobs.max_uni > 0);
                let plans = draw_plans(w, self.opts.streams_max, self.opts.size_max, self.opts.reset_rate, self.opts.leave_rate, self.budget_c / 2, dirs);
                self.wl.add_side(inc, true, plans);
                self.wl.sides.get_mut(&inc).unwrap().resp_cap = self.budget_c / 2 / self.opts.streams_max.max(1) as u64;
                self.client_incs.push(inc);
                if let Some(dg) = self.dg.as_mut() {
                    dg.add_side(w, inc, true);
                }
                Some(inc)
            }
            Err(e) => {
                w.violate("connect-failed", format!("{:?}", e));
                None
            }
        }
    }

    fn pick_conn(&self, w: &World, client: bool) -> Option<u32> {
        // (the most recent connection that is still alive: in worlds that connect again later,
        // operations drawn for later instants act on the later connection)
        let c = self.client_incs.iter().rev().copied().find(|i| !w.conns[*i as usize].conn.is_closed()).or(self.client_incs.first().copied())?;
        if client {
            Some(c)
        } else {
            let p = w.conns[c as usize].peer;
            if p == NO_INC {
                None
            } else {
                Some(p)
            }
        }
    }

    fn do_op(&mut self, w: &mut World, op: TimedOp) {
        w.sig_mix(0x09 + match &op { TimedOp::KeyUpdate { .. } => 1, TimedOp::Ping { .. } => 2, TimedOp::SetRecvWindow { .. } => 3, TimedOp::SetSendWindow { .. } => 4, TimedOp::SetMaxStreams { .. } => 5, TimedOp::SetLinkMtu(_) => 6, TimedOp::Partition { .. } => 7, TimedOp::Rebind { .. } => 8, TimedOp::Close { .. } => 9, TimedOp::Suspend { .. } => 10 });
        w.logf(|| format!("op {:?}", op));
        match op {
            TimedOp::KeyUpdate { client } => {
                if let Some(inc) = self.pick_conn(w, client) {
                    let c = &w.conns[inc as usize];
                    if !c.conn.is_handshaking() && !c.conn.is_closed() && self.wl.sides.get(&inc).is_some_and(|s| s.connected) {
                        w.conn_mut(inc).force_key_update();
                        w.faults.hit("app_key_update");
                    }
                }
            }
            TimedOp::Ping { client } => {
                if let Some(inc) = self.pick_conn(w, client) {
                    if !w.conns[inc as usize].conn.is_closed() {
                        w.conn_mut(inc).ping();
                    }
                }
            }
            TimedOp::SetRecvWindow { client, v } => {
                if let Some(inc) = self.pick_conn(w, client) {
                    w.conn_mut(inc).set_receive_window(VarInt::from_u64(v).unwrap());
                    w.faults.hit("app_set_receive_window");
                }
            }
            TimedOp::SetSendWindow { client, v } => {
                if let Some(inc) = self.pick_conn(w, client) {
                    w.conn_mut(inc).set_send_window(v);
                    self.wl.send_window_set.insert(inc, v);
                    w.faults.hit("app_set_send_window");
                }
            }
            TimedOp::SetMaxStreams { client, uni, n } => {
                if let Some(inc) = self.pick_conn(w, client) {
                    w.conn_mut(inc).set_max_concurrent_streams(if uni { Dir::Uni } else { Dir::Bi }, VarInt::from_u64(n).unwrap());
                    w.faults.hit("app_set_max_streams");
                }
            }
            TimedOp::SetLinkMtu(m) => {
                w.net.mtu = m;
                w.faults.hit("link_mtu_change");
            }
            TimedOp::Partition { ms, both } => {
                let c = self.clients[0];
                w.net.partitions.insert((c, self.server));
                if both {
                    w.net.partitions.insert((self.server, c));
                }
                w.faults.hit("partition");
                w.wake_in(ms * MS, TAG_USER - 1);
            }
            TimedOp::Rebind { full } => {
                // migration is only defined once the handshake is confirmed
                let confirmed = self.client_incs.first().is_some_and(|i| self.wl.sides.get(i).is_some_and(|s| s.confirmed));
                // (and impossible when the server uses zero-length connection IDs, RFC 9000 §9)
                if !confirmed || self.clients.len() != 1 || self.opts.conns_per_client != 1 || w.nodes[self.server as usize].cid_len == 0 {
                    return;
                }
                let c = self.clients[0];
                let old = w.nodes[c as usize].addr;
                let mut new = old;
                new.set_port(old.port().wrapping_add(1000 + (w.now % 1000) as u16) | 1024);
                if full {
                    if let std::net::SocketAddr::V4(a) = &mut new {
                        let o = a.ip().octets();
                        a.set_ip(std::net::Ipv4Addr::new(o[0], o[1].wrapping_add(1), o[2], o[3]));
                    }
                }
                if !w.addr_map.contains_key(&new) {
                    w.rebind(c, new);
                    // the server can only follow a client that keeps sending from the new
                    // address: the application (or its keep-alive) sends something
                    let inc = self.client_incs[0];
                    if !w.conns[inc as usize].conn.is_closed() {
                        // an endpoint that rebinds its own socket (quinn::Endpoint::rebind) tells
                        // its connections, which then move on to a fresh remote connection ID; a
                        // NAT rebinding happens behind the endpoint's back
                        if w.ch.chance("op.rebind_known", 1, 3) {
                            w.conn_mut(inc).local_address_changed();
                            w.faults.hit("local_address_changed");
                        }
                        w.conn_mut(inc).ping();
                    }
                }
            }
            TimedOp::Suspend { client, ms } => {
                // Only once the handshake is confirmed: probe timeouts of a few tens of
                // milliseconds double a dozen times during a suspension of seconds, and before
                // the handshake is confirmed nothing resets that back-off quickly (1-RTT packets
                // cannot be acknowledged yet, ACKs wait behind the congestion window): the ends
                // then find each other again only after hours, which no budget can tell from a
                // deadlock.
                let confirmed = self.client_incs.first().is_some_and(|i| self.wl.sides.get(i).is_some_and(|s| s.confirmed));
                if !confirmed {
                    return;
                }
                let node = if client { self.clients[0] } else { self.server };
                let until = w.now + ms * MS;
                let e = w.suspended.entry(node).or_insert(0);
                *e = (*e).max(until);
                w.faults.hit("node_suspended");
            }
            TimedOp::Close { client, code } => {
                if let Some(inc) = self.pick_conn(w, client) {
                    if !w.conns[inc as usize].conn.is_closed() {
                        let now = w.instant();
                        w.conn_mut(inc).close(now, VarInt::from_u64(code).unwrap(), bytes::Bytes::from_static(b"bye"));
                        w.conns[inc as usize].closed_locally_at = Some(w.now);
                        self.wl.mark_closed(inc);
                        if let Some(dg) = self.dg.as_mut() {
                            dg.mark_closed(inc);
                        }
                        w.faults.hit("app_close");
                    }
                }
            }
        }
    }
}

impl Scenario for Basic {
    fn on_incoming(&mut self, w: &mut World, _node: u32, incoming: &quinn_proto::Incoming, _dgram: u32) -> IncomingAction {
        if self.retry_first && !incoming.remote_address_validated() && incoming.may_retry() {
            w.probes.hit("retry_taken");
            IncomingAction::Retry
        } else {
            IncomingAction::Accept
        }
    }

    fn on_accepted(&mut self, w: &mut World, inc: u32, _dgram: u32) {
        let dirs = (self.client_knobs.max_bidi > 0, self.client_knobs.max_uni > 0);
        let plans = if self.opts.server_plans { draw_plans(w, self.opts.streams_max, self.opts.size_max, self.opts.reset_rate, self.opts.leave_rate, self.budget_s / 2, dirs) } else { Vec::new() };
        self.server_plans_n += plans.len() as u32;
        self.wl.add_side(inc, false, plans);
        self.wl.sides.get_mut(&inc).unwrap().resp_cap = self.budget_s / 2 / self.opts.streams_max.max(1) as u64;
        if let Some(dg) = self.dg.as_mut() {
            dg.add_side(w, inc, false);
        }
    }

    fn on_event(&mut self, w: &mut World, inc: u32, ev: Event) {
        if matches!(ev, Event::Connected) && !self.anchored.is_empty() {
            if let Some(&c0) = self.client_incs.first() {
                let is_client = inc == c0;
                let is_server = w.conns[c0 as usize].peer == inc;
                if is_client || is_server {
                    for (i, a) in self.anchored.iter_mut().enumerate() {
                        if a.0 == is_client && !a.3 {
                            a.3 = true;
                            w.wake_in(a.1, TAG_ANCHORED + i as u64);
                        }
                    }
                }
            }
        }
        self.wl.on_event(w, inc, &ev);
        if let Some(dg) = self.dg.as_mut() {
            dg.on_event(w, inc, &ev);
        }
    }

    fn on_wake(&mut self, w: &mut World, tag: u64) {
        if tag == TAG_CLEAN {
            self.clean = true;
            w.net.faults = false;
            w.net.partitions.clear();
            w.drv.late = 0;
            w.logf(|| "--- fault phase over ---".to_string());
        } else if tag >= crate::dgram::TAG_DGRAM && tag < crate::dgram::TAG_DGRAM + (1 << 40) {
            if let Some(dg) = self.dg.as_mut() {
                dg.on_wake(w, tag - crate::dgram::TAG_DGRAM);
            }
        } else if tag >= crate::app::TAG_LAZY && tag < crate::app::TAG_LAZY + (1 << 40) {
            self.wl.on_lazy_wake(w, tag - crate::app::TAG_LAZY);
        } else if tag == TAG_FAULTS_ON {
            w.net.faults = true;
            w.logf(|| "--- fault phase begins ---".to_string());
        } else if tag == TAG_USER - 1 {
            w.net.partitions.clear();
            w.logf(|| "partition healed".to_string());
        } else if tag >= TAG_CONNECT && tag < TAG_CONNECT + (1 << 20) {
            self.start_conn(w, (tag - TAG_CONNECT) as usize);
        } else if tag >= TAG_OP && tag < TAG_OP + (1 << 20) {
            let op = self.ops[(tag - TAG_OP) as usize].1.clone();
            self.do_op(w, op);
        } else if tag >= TAG_ANCHORED && tag < TAG_ANCHORED + (1 << 20) {
            let op = self.anchored[(tag - TAG_ANCHORED) as usize].2.clone();
            w.probes.hit("anchored_op");
            self.do_op(w, op);
        }
    }

    fn after_step(&mut self, w: &mut World) {
        let wl = &self.wl;
        for o in self.oracles.iter_mut() {
            o.after_step(w, wl);
        }
        if self.completed_at.is_none() && self.clean && wl.complete(w) && (!self.opts.run_all_ops || self.ops.iter().all(|(at, _)| *at < w.now)) && self.dg.as_ref().is_none_or(|d| d.drained(w)) {
            self.completed_at = Some(w.now);
        }
    }

    fn done(&self, w: &World) -> bool {
        self.completed_at.is_some() || (self.clean && w.now > self.fault_end + self.opts.clean_budget)
    }
}
