//! Small helpers shared by oracles.

use crate::chooser::mix;

/// Set of half-open u64 ranges, kept sorted and coalesced.
#[derive(Clone, Debug, Default, PartialEq, Eq)]
pub struct Ranges {
    pub v: Vec<(u64, u64)>,
}

impl Ranges {
    pub fn new() -> Self {
        Self { v: Vec::new() }
    }
    /// does [a,b) intersect the set?
    pub fn overlaps(&self, a: u64, b: u64) -> bool {
        if a >= b {
            return false;
        }
        self.v.iter().any(|&(x, y)| a < y && x < b)
    }
    pub fn contains(&self, a: u64, b: u64) -> bool {
        if a >= b {
            return true;
        }
        self.v.iter().any(|&(x, y)| x <= a && b <= y)
    }
    pub fn insert(&mut self, a: u64, b: u64) {
        if a >= b {
            return;
        }
        let mut na = a;
        let mut nb = b;
        let mut out = Vec::with_capacity(self.v.len() + 1);
        let mut placed = false;
        for &(x, y) in &self.v {
            if y < na {
                out.push((x, y));
            } else if nb < x {
                if !placed {
                    out.push((na, nb));
                    placed = true;
                }
                out.push((x, y));
            } else {
                na = na.min(x);
                nb = nb.max(y);
            }
        }
        if !placed {
            out.push((na, nb));
        }
        self.v = out;
    }
    pub fn total(&self) -> u64 {
        self.v.iter().map(|&(x, y)| y - x).sum()
    }
    /// is the set exactly [0, n)?
    pub fn is_prefix(&self, n: u64) -> bool {
        if n == 0 {
            return self.v.is_empty();
        }
        self.v.len() == 1 && self.v[0] == (0, n)
    }
    /// length of the contiguous run starting exactly at `from` (0 if `from` is not covered)
    pub fn prefix_len_from(&self, from: u64) -> u64 {
        self.v.iter().find(|&&(x, y)| x <= from && from < y).map_or(0, |&(_, y)| y - from)
    }
    /// does the set cover [0, n)?
    pub fn covers_prefix(&self, n: u64) -> bool {
        n == 0 || self.v.first().is_some_and(|&(x, y)| x == 0 && y >= n)
    }
    /// how many of the offsets [0, n) are in the set
    pub fn covered_below(&self, n: u64) -> u64 {
        self.v.iter().map(|&(x, y)| y.min(n).saturating_sub(x.min(n))).sum()
    }
    pub fn max_end(&self) -> u64 {
        self.v.last().map_or(0, |x| x.1)
    }
}

/// Deterministic data pattern: byte at `off` of the stream identified by `key`.
#[inline]
pub fn pat_word(key: u64, word: u64) -> u64 {
    let mut x = key ^ word.wrapping_mul(0x9E37_79B9_7F4A_7C15);
    x = (x ^ (x >> 30)).wrapping_mul(0xBF58_476D_1CE4_E5B9);
    x = (x ^ (x >> 27)).wrapping_mul(0x94D0_49BB_1331_11EB);
    x ^ (x >> 31)
}

pub fn pat_fill(key: u64, off: u64, out: &mut [u8]) {
    let mut o = off;
    let mut i = 0;
    while i < out.len() {
        let w = pat_word(key, o / 8).to_le_bytes();
        let s = (o % 8) as usize;
        let n = (8 - s).min(out.len() - i);
        out[i..i + n].copy_from_slice(&w[s..s + n]);
        i += n;
        o += n as u64;
    }
}

/// first mismatching index, if any
pub fn pat_check(key: u64, off: u64, data: &[u8]) -> Option<usize> {
    let mut o = off;
    let mut i = 0;
    while i < data.len() {
        let w = pat_word(key, o / 8).to_le_bytes();
        let s = (o % 8) as usize;
        let n = (8 - s).min(data.len() - i);
        if data[i..i + n] != w[s..s + n] {
            for j in 0..n {
                if data[i + j] != w[s + j] {
                    return Some(i + j);
                }
            }
        }
        i += n;
        o += n as u64;
    }
    None
}

pub fn stream_key(world_key: u64, conn_key: u32, sender_is_client: bool, sid: u64) -> u64 {
    mix(&[world_key, conn_key as u64, sender_is_client as u64, sid])
}

pub fn hex(b: &[u8]) -> String {
    let mut s = String::with_capacity(b.len() * 2);
    for x in b {
        s.push_str(&format!("{:02x}", x));
    }
    s
}

pub fn fnv(s: &[u8]) -> u64 {
    let mut h = 0xcbf29ce484222325u64;
    for b in s {
        h = (h ^ *b as u64).wrapping_mul(0x100000001b3);
    }
    h
}
