//! C08 — every connection terminates cleanly and exactly once.

use std::collections::BTreeMap;

use bytes::Bytes;
use quinn_proto::{ConnectionError, Dir, Event, ReadError, Side, VarInt};

use crate::app::Workload;
use crate::cfgs::TKnobs;
use crate::chooser::Chooser;
use crate::runner::{Family, PropSpec, RunCtx, RunOut};
use crate::scen::{Basic, BasicOpts, TAG_USER};
use crate::tap::NO_INC;
use crate::wire::{self, Frame, Space};
use crate::world::{fmt_t, IncomingAction, Ns, Scenario, World, MS, SEC};

const TAG_CLOSE: u64 = TAG_USER + (2 << 30);
const TAG_CRASH: u64 = TAG_USER + (3 << 30);
const TAG_RESTART: u64 = TAG_USER + (4 << 30);
const TAG_PROBE: u64 = TAG_USER + (5 << 30);
const TAG_END: u64 = TAG_USER + (6 << 30);

#[derive(Clone, Debug)]
struct CloseOp {
    at: Ns,
    client: bool,
    code: u64,
    reason: Vec<u8>,
    /// write this much on a fresh stream right before closing (window-limited closer)
    burst: u64,
}

#[derive(Default, Clone, Debug)]
struct ConnTrack {
    closed_locally: Option<(Ns, u64, Vec<u8>)>,
    lost_at: Option<Ns>,
    drained_at: Option<Ns>,
    bytes_readable_after_close_checked: bool,
    announce_checked: bool,
    probes_sent: bool,
}

pub struct C08Scen {
    b: Basic,
    closes: Vec<CloseOp>,
    crash: Option<(Ns, bool)>,
    /// the peer disappears right after having sent its k-th datagram: (client, k)
    crash_after: Option<(bool, u64)>,
    restart: Option<Ns>,
    track: BTreeMap<u32, ConnTrack>,
    crashed_node: Option<u32>,
    crash_time: Option<Ns>,
    restarted: bool,
    end_at: Ns,
    ended: bool,
    keepalive_world: bool,
    pto_ub_stat: f64,
    pto_max: Ns,
}

fn close_frames(payload: &[u8]) -> Vec<Frame> {
    wire::frames(payload).0.into_iter().filter(|f| matches!(f, Frame::ConnectionClose { .. } | Frame::ApplicationClose { .. })).collect()
}

impl C08Scen {
    fn do_crash(&mut self, w: &mut World, client: bool) {
        let node = if client { self.b.clients[0] } else { self.b.server };
        w.nodes[node as usize].alive = false;
        for c in w.conns.iter_mut().filter(|c| c.node == node) {
            c.frozen = true;
        }
        self.crashed_node = Some(node);
        self.crash_time = Some(w.now);
        w.faults.hit("peer_crash");
        w.logf(|| format!("node{} crashed", node));
    }

    /// Upper bound on any probe timeout the connection can have computed, from observable facts
    /// only: R bounds every RTT sample (two one-way delays, the peer's ack delay, driver lateness).
    fn pto_ub(&self, _w: &World) -> Ns {
        self.pto_max
    }

    /// largest probe timeout any live connection has reported so far (read through the probe
    /// after every step; under loss of acknowledgements RTT samples are not bounded by path
    /// delays, so a bound derived from the simulated network alone would be unsound)
    fn sample_pto(&mut self, w: &World) {
        for c in &w.conns {
            if !c.frozen && !c.conn.is_drained() {
                let p = c.conn.verif_probe().pto.as_nanos() as u64;
                if p > self.pto_max {
                    self.pto_max = p;
                }
            }
        }
    }

    fn idle_eff(&self) -> Option<Ns> {
        match (self.b.server_knobs.idle_ms, self.b.client_knobs.idle_ms) {
            (Some(a), Some(b)) => Some(a.min(b) * MS),
            (Some(a), None) | (None, Some(a)) => Some(a * MS),
            (None, None) => None,
        }
    }

    fn do_close(&mut self, w: &mut World, op: &CloseOp) {
        let Some(&c) = self.b.client_incs.first() else { return };
        let inc = if op.client { c } else { w.conns[c as usize].peer };
        if inc == NO_INC || w.conns[inc as usize].conn.is_closed() || w.conns[inc as usize].frozen {
            return;
        }
        if op.burst > 0 && self.b.wl.sides.get(&inc).is_some_and(|s| s.connected) {
            // queue a lot of data first so that the closer is congestion / flow-control limited
            if let Some(id) = w.conn_mut(inc).streams().open(Dir::Uni) {
                let data = vec![0x42u8; op.burst as usize];
                let _ = w.conn_mut(inc).send_stream(id).write(&data);
                w.probes.hit("close_with_queued_data");
            }
        }
        // drain what is readable right now: data accepted before the close may be read
        self.drain_reads(w, inc);
        let now = w.instant();
        w.conn_mut(inc).close(now, VarInt::from_u64(op.code).unwrap(), Bytes::from(op.reason.clone()));
        w.conns[inc as usize].closed_locally_at = Some(w.now);
        self.b.wl.mark_closed(inc);
        self.track.entry(inc).or_default().closed_locally = Some((w.now, op.code, op.reason.clone()));
        w.faults.hit("app_close");
        w.logf(|| format!("inc{} close(code={}, reason={:?})", inc, op.code, String::from_utf8_lossy(&op.reason)));
    }

    /// read everything currently readable on every receive stream; returns bytes read
    fn drain_reads(&mut self, w: &mut World, inc: u32) -> u64 {
        let sids: Vec<u64> = self.b.wl.sides.get(&inc).map(|s| s.recvs.iter().filter(|(_, r)| r.terminal.is_none()).map(|(k, _)| *k).collect()).unwrap_or_default();
        let mut total = 0;
        for sid in sids {
            let id = quinn_proto::StreamId::from(VarInt::from_u64(sid).unwrap());
            let unordered = self.b.wl.sides[&inc].recvs[&sid].unordered;
            let conn = w.conn_mut(inc);
            let mut rs = conn.recv_stream(id);
            let res = rs.read(!unordered);
            if let Ok(mut chunks) = res {
                loop {
                    match chunks.next(usize::MAX) {
                        Ok(Some(c)) => total += c.bytes.len() as u64,
                        Ok(None) | Err(ReadError::Reset(_)) => {
                            break;
                        }
                        Err(ReadError::Blocked) => break,
                    }
                }
                let _ = chunks.finalize();
            }
        }
        total
    }

    fn check_step(&mut self, w: &mut World) {
        self.sample_pto(w);
        let pto_ub = self.pto_ub(w);
        self.pto_ub_stat = pto_ub as f64 / 1e6;
        let slack = w.drv.late_max + MS;
        for i in 0..w.conns.len() {
            let inc = i as u32;
            if w.conns[i].frozen {
                continue;
            }
            let n_lost = w.conns[i].lost.len();
            let closed = w.conns[i].conn.is_closed();
            let drained = w.conns[i].conn.is_drained();
            let tr = self.track.entry(inc).or_default();
            if n_lost > 1 {
                w.violate("connection-lost-reported-twice", format!("inc{} emitted ConnectionLost {} times: {:?}", inc, n_lost, w.conns[i].lost));
                return;
            }
            if n_lost == 1 && tr.lost_at.is_none() {
                tr.lost_at = Some(w.now);
            }
            if tr.closed_locally.is_some() && n_lost > 0 {
                w.violate("connection-lost-after-local-close", format!("inc{} was closed by its own application at {} and still emitted ConnectionLost({})", inc, fmt_t(tr.closed_locally.as_ref().unwrap().0), w.conns[i].lost[0]));
                return;
            }
            if drained && tr.drained_at.is_none() {
                tr.drained_at = Some(w.now);
                // drained within three probe timeouts of the closing event
                let start = tr.closed_locally.as_ref().map(|c| c.0).or(tr.lost_at);
                if let Some(s) = start {
                    if w.now > s + 3 * pto_ub + slack {
                        w.violate("drained-too-late", format!("inc{} closed at {} but drained only at {} (> 3 x PTO upper bound {} + driver slack)", inc, fmt_t(s), fmt_t(w.now), fmt_t(pto_ub)));
                        return;
                    }
                }
            }
            if w.conns[i].drained_events > 1 {
                w.violate("drained-notified-twice", format!("inc{} emitted the Drained endpoint event {} times", inc, w.conns[i].drained_events));
                return;
            }
            // prompt announcement of a local close
            if let Some((t, code, reason)) = tr.closed_locally.clone() {
                if !tr.announce_checked && t == w.now {
                    tr.announce_checked = true;
                    let tap = w.tap.lock().unwrap();
                    let mut found = Vec::new();
                    for p in tap.pkts.iter().rev().take_while(|p| p.t == w.now) {
                        if p.enc && p.inc == inc {
                            for f in close_frames(&p.payload) {
                                found.push((p.space, f));
                            }
                        }
                    }
                    drop(tap);
                    let p = w.conns[i].conn.verif_probe();
                    let amplification_blocked = !p.path_validated && p.path_total_sent + 1 > 3 * p.path_total_recvd;
                    if found.is_empty() {
                        if !amplification_blocked {
                            let mtu = w.conns[i].conn.current_mtu() as u64;
                            let why = if p.in_flight_bytes + mtu >= p.window { "congestion window full" } else { "no obvious blocker" };
                            w.violate("close-not-announced", format!("inc{} close(code={}) produced no CONNECTION_CLOSE in the poll_transmit that followed ({}; in_flight={}B window={})", inc, code, why, p.in_flight_bytes, p.window));
                            return;
                        }
                    } else {
                        for (space, f) in &found {
                            let ok = match (space, f) {
                                (Space::OneRtt | Space::ZeroRtt, Frame::ApplicationClose { code: c, reason: r }) => *c == code && reason.starts_with(r),
                                (Space::Initial | Space::Handshake, Frame::ConnectionClose { code: c, reason: r, .. }) => *c == wire::code::APPLICATION_ERROR && r.is_empty(),
                                _ => false,
                            };
                            if !ok {
                                w.violate("close-announced-wrongly", format!("inc{} close(code={}, reason={:?}) was announced in {} as {:?}", inc, code, String::from_utf8_lossy(&reason), space.name(), f));
                                return;
                            }
                        }
                        w.probes.hit("close_announced_at_once");
                    }
                }
            }
            // what the peer is told: must be a close frame it accepted, and match the closer
            if n_lost == 1 && tr.lost_at == Some(w.now) {
                let reason = w.conns[i].lost[0].clone();
                let (want_code, want_reason, app) = match &reason {
                    ConnectionError::ApplicationClosed(a) => (a.error_code.into_inner(), a.reason.to_vec(), true),
                    ConnectionError::ConnectionClosed(c) => (u64::from(c.error_code), c.reason.to_vec(), false),
                    _ => continue,
                };
                let tap = w.tap.lock().unwrap();
                let mut accepted_close = false;
                for p in tap.pkts.iter().filter(|p| !p.enc && p.ok && p.inc == inc) {
                    for f in close_frames(&p.payload) {
                        match f {
                            Frame::ApplicationClose { code, reason } if app && code == want_code && reason == want_reason => accepted_close = true,
                            Frame::ConnectionClose { code, reason, .. } if !app && code == want_code && reason == want_reason => accepted_close = true,
                            _ => {}
                        }
                    }
                }
                drop(tap);
                if !accepted_close {
                    w.violate("close-reason-not-from-accepted-packet", format!("inc{} reported {:?} but accepted no packet carrying such a close frame", inc, reason));
                    return;
                }
                let peer = w.conns[i].peer;
                // (with zero-length CIDs a replayed first flight can create another server
                // connection on the same address tuple, whose close this may be: only compare
                // with the paired peer if that peer sealed such a frame)
                let from_peer = peer != NO_INC && {
                    let tap = w.tap.lock().unwrap();
                    tap.pkts.iter().filter(|p| p.enc && p.inc == peer).any(|p| {
                        close_frames(&p.payload).iter().any(|f| match f {
                            Frame::ApplicationClose { code, reason } => app && *code == want_code && *reason == want_reason,
                            Frame::ConnectionClose { code, reason, .. } => !app && *code == want_code && *reason == want_reason,
                            _ => false,
                        })
                    })
                };
                if from_peer {
                    if let Some((_, code, r)) = self.track.get(&peer).and_then(|t| t.closed_locally.clone()) {
                        let ok = (app && want_code == code && r.starts_with(&want_reason)) || (!app && want_code == wire::code::APPLICATION_ERROR);
                        if !ok {
                            w.violate("peer-close-reason-mismatch", format!("inc{} reported {:?} but its peer closed with code={} reason={:?}", inc, reason, code, String::from_utf8_lossy(&r)));
                            return;
                        }
                        w.probes.hit("peer_learned_close_reason");
                    }
                }
            }
            // closed connections refuse new work
            if closed && !drained {
                let c = &mut w.conns[i];
                if c.conn.streams().open(Dir::Bi).is_some() || c.conn.streams().open(Dir::Uni).is_some() {
                    w.violate("open-after-close", format!("inc{} opened a stream after is_closed()", inc));
                    return;
                }
            }
        }
        // endpoint bookkeeping
        for n in 0..w.nodes.len() {
            if !w.nodes[n].alive {
                continue;
            }
            let live = w.nodes[n].by_handle.len();
            let open = w.nodes[n].ep.open_connections();
            if open != live {
                w.violate("endpoint-connection-count-mismatch", format!("node{} open_connections()={} but {} connections have not been drained", n, open, live));
                return;
            }
        }
    }

    /// idle timeout in force for a connection: the negotiated minimum once it has seen the peer's
    /// transport parameters, its own configured value before that
    fn idle_for(&self, c: &crate::world::Conn) -> Option<Ns> {
        let own = if c.side == Side::Client { self.b.client_knobs.idle_ms } else { self.b.server_knobs.idle_ms };
        if c.hs_data_at.is_some() {
            self.idle_eff()
        } else {
            own.map(|x| x * MS)
        }
    }

    fn idle_checks(&mut self, w: &mut World) {
        let pto_ub = self.pto_ub(w);
        let tap = w.tap.lock().unwrap();
        let mut problems = Vec::new();
        for c in &w.conns {
            if c.frozen {
                continue;
            }
            let Some(ConnectionError::TimedOut) = c.lost.first() else { continue };
            // a client that timed out between learning the peer's parameters and `Connected` may
            // be using either value: judge it by the smaller lower bound and larger upper bound
            let (idle_lo, idle_hi) = match (self.idle_for(c), self.idle_eff()) {
                (Some(a), Some(b)) => (a.min(b), a.max(b)),
                (Some(a), None) | (None, Some(a)) => (a, a),
                (None, None) => continue,
            };
            let t_to = self.track.get(&c.inc).and_then(|t| t.lost_at).unwrap_or(0);
            // last first-seen accepted packet before the timeout
            let mut seen = std::collections::BTreeSet::new();
            // two views of "last packet received": `sure` counts packets quinn certainly processed
            // (first-seen and well inside its 128-packet duplicate window) and gives the lower
            // bound; `maybe` counts every first-seen packet and gives the upper bound
            let mut last_sure: Option<Ns> = None;
            let mut last_maybe: Option<(Ns, usize)> = None;
            let mut highest = [0u64; 3];
            // (1-RTT packets that arrive while the receiver is still handshaking are authenticated
            // but dropped unprocessed: they are not "received" in the protocol sense)
            let usable = |p: &crate::tap::PktRec| p.space != Space::OneRtt || c.connected_at.is_some_and(|t| p.t >= t);
            for (idx, p) in tap.pkts.iter().enumerate().filter(|(_, p)| !p.enc && p.ok && p.inc == c.inc && p.t <= t_to) {
                let sp = p.space.pn_space();
                let stale = highest[sp].saturating_sub(p.pn) >= 100;
                highest[sp] = highest[sp].max(p.pn);
                // (a dropped-while-handshaking packet still enters the duplicate filter, so a later
                // copy of it is a duplicate, not a first-seen packet)
                if seen.insert((sp, p.pn)) && usable(p) {
                    last_maybe = Some((p.t, idx));
                    if !stale {
                        last_sure = Some(p.t);
                    }
                }
            }
            let Some((la_hi, la_idx)) = last_maybe else { continue };
            let la = last_sure.unwrap_or(0);
            // first ack-eliciting packet sent after it (ledger order, not merely time order)
            // (quinn decides whether a packet is ack-eliciting before its frames are written: a
            // packet that starts out as a bare ACK and picks up a STREAMS_BLOCKED or similar notice
            // on the way is tracked as non-eliciting and does not restart the timer — the restart
            // then happens with the next packet that is ack-eliciting from its first frame on)
            let first_ae = tap
                .pkts
                .iter()
                .skip(la_idx + 1)
                .filter(|p| p.enc && p.inc == c.inc && p.t <= t_to)
                .find(|p| {
                    let fr = wire::frames(&p.payload).0;
                    fr.iter().any(|f| f.ack_eliciting()) && !matches!(fr.iter().find(|f| !matches!(f, Frame::Padding(_))), Some(Frame::Ack { .. }))
                })
                .map(|p| p.t);
            let restart = first_ae.unwrap_or(la_hi).max(la_hi);
            let idle = idle_hi;
            if t_to + MS < la + idle_lo {
                problems.push(("timed-out-too-early", format!("inc{} reported TimedOut at {} but accepted a packet at {} and the idle timeout in force is {}", c.inc, fmt_t(t_to), fmt_t(la), fmt_t(idle_lo))));
            }
            // one extra PTO of margin: quinn classifies a packet as ack-eliciting before its frames
            // are written, so an ACK packet that picks up a STREAMS_BLOCKED notice on the way is
            // tracked as non-eliciting and the restart happens with the next probe instead
            let ub = restart + idle.max(3 * pto_ub) + pto_ub + w.drv.late_max + 2 * MS;
            if t_to > ub {
                problems.push(("timed-out-too-late", format!("inc{} reported TimedOut at {}; last legitimate restart of the idle timer at {}, idle timeout {}, 3xPTO bound {}", c.inc, fmt_t(t_to), fmt_t(restart), fmt_t(idle), fmt_t(3 * pto_ub))));
            }
        }
        drop(tap);
        if let Some((k, d)) = problems.into_iter().next() {
            w.violate(k, d);
        }
    }
}

impl Scenario for C08Scen {
    fn on_incoming(&mut self, w: &mut World, node: u32, incoming: &quinn_proto::Incoming, dgram: u32) -> IncomingAction {
        self.b.on_incoming(w, node, incoming, dgram)
    }
    fn on_accepted(&mut self, w: &mut World, inc: u32, dgram: u32) {
        self.b.on_accepted(w, inc, dgram)
    }
    fn on_event(&mut self, w: &mut World, inc: u32, ev: Event) {
        self.b.on_event(w, inc, ev)
    }
    fn on_wake(&mut self, w: &mut World, tag: u64) {
        if tag >= TAG_CLOSE && tag < TAG_CLOSE + 64 {
            let op = self.closes[(tag - TAG_CLOSE) as usize].clone();
            self.do_close(w, &op);
        } else if tag == TAG_CRASH {
            if let Some((_, client)) = self.crash {
                self.do_crash(w, client);
            }
        } else if tag == TAG_RESTART {
            // the server process restarts: fresh endpoint, same stateless-reset key
            let node = self.b.server;
            let mut orphans = Vec::new();
            for c in w.conns.iter_mut().filter(|c| c.node == node) {
                c.frozen = true;
                orphans.push(c.peer);
            }
            // the client's connection may be adopted by a connection of the new server process
            // (if the handshake had not completed yet)
            for o in orphans {
                if o != NO_INC {
                    w.conns[o as usize].peer = NO_INC;
                }
            }
            let cid_len = w.nodes[node as usize].cid_len;
            let sep = crate::cfgs::EpOpts { seed: 0xBEEF, cid_len, ..Default::default() };
            let st = std::sync::Arc::new(self.b.server_knobs.build());
            let crypto = crate::cfgs::tapped_server_crypto(&w.tap, node, crate::cfgs::rustls_server(false, true));
            let scfg = crate::cfgs::server_config(crypto, 0x70, st, self.b.clock.clone());
            w.nodes[node as usize].ep = quinn_proto::Endpoint::new(std::sync::Arc::new(crate::cfgs::endpoint_config(&sep)), Some(std::sync::Arc::new(scfg)), true);
            w.nodes[node as usize].by_handle.clear();
            self.restarted = true;
            w.faults.hit("peer_restart");
            w.logf(|| "server endpoint restarted".to_string());
            // the client application notices nothing; it keeps using the connection
            if let Some(&c) = self.b.client_incs.first() {
                if !w.conns[c as usize].conn.is_closed() {
                    w.conn_mut(c).ping();
                }
            }
        } else if tag == TAG_PROBE {
            // replay old datagrams towards drained connections: they must not be routed to them
            let drained: Vec<u32> = w.conns.iter().filter(|c| c.drained_handled && !c.frozen).map(|c| c.inc).collect();
            for inc in drained {
                let tr = self.track.entry(inc).or_default();
                if tr.probes_sent {
                    continue;
                }
                tr.probes_sent = true;
                let peer = w.conns[inc as usize].peer;
                let node_addr = w.nodes[w.conns[inc as usize].node as usize].addr;
                let olds: Vec<u32> = w.dgrams.iter().filter(|d| d.genuine && d.origin_inc == peer && d.dst == node_addr).map(|d| d.id).rev().take(3).collect();
                for id in olds {
                    let d = w.dgrams[id as usize].clone();
                    w.inject(w.now + MS, d.src, d.dst, d.bytes, d.ecn, true, id, "replay-after-drain");
                    w.faults.hit("replay_after_drain");
                }
            }
            if !self.ended {
                w.wake_in(500 * MS, TAG_PROBE);
            }
        } else if tag == TAG_END {
            self.ended = true;
        } else {
            self.b.on_wake(w, tag)
        }
    }
    fn after_step(&mut self, w: &mut World) {
        self.b.after_step(w);
        if let Some((client, k)) = self.crash_after {
            let node = if client { self.b.clients[0] } else { self.b.server };
            if self.crashed_node.is_none() && w.conns.iter().filter(|c| c.node == node).map(|c| c.tx_datagrams).sum::<u64>() >= k {
                self.do_crash(w, client);
                w.faults.hit("peer_crash_after_kth_datagram");
            }
        }
        if w.violations.is_empty() {
            self.check_step(w);
        }
    }
    fn done(&self, w: &World) -> bool {
        self.ended || w.now > self.end_at + 10 * SEC
    }
}

fn run(ch: Chooser, ctx: &RunCtx, mut opts: BasicOpts, mode: u32) -> RunOut {
    let mut w = World::from_ctx(ch, ctx);
    opts.idle_off = false;
    opts.op_kinds = vec![0, 1];
    opts.wl.strict_api = false; // connections are closed under the workload's feet
    // replays after drain and retransmitted first flights create further server-side connections
    // for one client connection; the data ledger's pairing does not follow that, and data
    // integrity is not C08's business
    opts.wl.check_data = false;
    opts.cid_len_choices = vec![8, 8, 4, 20, 0];
    if mode == 2 {
        // keep-alive world: clean network, idle timeout short, keep-alive shorter on one side
        opts.fault_phase_max_ms = 0;
        opts.ops_max = 0;
        opts.idle_choices = vec![Some(2000), Some(600), Some(5000)];
    } else if mode == 4 {
        // slow path, impatient endpoints, very different idle timeouts on the two sides: the
        // survivor of the crash is often unable to send (its window is full of retransmitted
        // first flights) when the last packet it will ever get arrives
        opts.idle_choices = vec![];
        let mut sk = TKnobs::draw(&mut w.ch);
        let mut ck = TKnobs::draw(&mut w.ch);
        for k in [&mut sk, &mut ck] {
            k.initial_rtt_ms = *w.ch.pick("c08.initial_rtt", &[10u64, 50, 100]);
        }
        let patient = *w.ch.pick("c08.idle_patient", &[Some(10_000u64), Some(30_000), None]);
        let hasty = *w.ch.pick("c08.idle_hasty", &[Some(100u64), Some(400), Some(1000)]);
        if w.ch.chance("c08.hasty_client", 1, 3) {
            (ck.idle_ms, sk.idle_ms) = (hasty, patient);
        } else {
            (ck.idle_ms, sk.idle_ms) = (patient, hasty);
        }
        for k in [&mut sk, &mut ck] {
            if w.ch.chance("c08.tiny_window", 1, 2) {
                k.harness_cc = Some((*w.ch.pick("c08.tiny_window.base", &[2400u64, 3000, 5000]), false));
            }
        }
        opts.fixed_knobs = Some((sk, ck));
    } else {
        opts.idle_choices = vec![Some(30_000), None, Some(100), Some(400), Some(2000), Some(10_000)];
    }
    let b = Basic::build(&mut w, opts);
    if mode == 4 {
        w.net.base_delay = *w.ch.pick("c08.slow_delay_ms", &[400u64, 150, 800, 1500]) * MS;
    }
    if mode == 2 {
        // keep-alive only protects an established connection whose round trip fits the idle timeout
        w.net.base_delay = w.net.base_delay.min(5 * MS);
    }
    let mut sc = C08Scen { b, closes: Vec::new(), crash: None, crash_after: None, restart: None, track: BTreeMap::new(), crashed_node: None, crash_time: None, restarted: false, end_at: 0, ended: false, keepalive_world: mode == 2, pto_ub_stat: 0.0, pto_max: 0 };
    let horizon_ms = (sc.b.fault_end / MS + 2500).max(500);
    match mode {
        0 => {
            // local closes at any point, possibly from both sides, possibly window-limited
            let n = 1 + w.ch.choose("c08.n_close", 2);
            for i in 0..n {
                let at = w.ch.range_log("c08.close_at_us", 0, horizon_ms * 1000) * 1000;
                let client = w.ch.chance("c08.close_client", 1, 2);
                let code = *w.ch.pick("c08.close_code", &[0u64, 1, 7, 63, 64, 16_383, 16_384, (1 << 30), (1u64 << 62) - 1]);
                let rl = *w.ch.pick("c08.reason_len", &[3usize, 0, 1, 30, 200, 1500]);
                let mut reason = vec![0u8; rl];
                for (k, b) in reason.iter_mut().enumerate() {
                    *b = b'a' + (k % 26) as u8;
                }
                let burst = *w.ch.pick("c08.burst", &[0u64, 0, 20_000, 60_000, 300_000]);
                sc.closes.push(CloseOp { at, client, code, reason, burst });
                w.wake_at(at, TAG_CLOSE + i as u64);
            }
        }
        4 => {
            let client = w.ch.chance("c08.crash_client", 1, 3);
            sc.crash_after = Some((client, w.ch.range_log("c08.crash_k", 1, 8)));
        }
        1 => {
            // the peer disappears after any prefix of the exchange
            let at = w.ch.range_log("c08.crash_at_us", 0, horizon_ms * 1000) * 1000;
            let client = w.ch.chance("c08.crash_client", 1, 2);
            if w.ch.chance("c08.crash_after_kth", 1, 3) {
                // ... or right after its k-th datagram: whatever that datagram tells the
                // survivor is the last thing it ever hears
                sc.crash_after = Some((client, w.ch.range_log("c08.crash_k", 1, 12)));
            } else {
                sc.crash = Some((at, client));
                w.wake_at(at, TAG_CRASH);
            }
        }
        2 => {}
        _ => {
            // server restart -> stateless reset
            let at = (50 + w.ch.range_log("c08.restart_at_ms", 0, horizon_ms)) * MS;
            sc.restart = Some(at);
            w.wake_at(at, TAG_RESTART);
        }
    }
    // run long enough for idle timeouts / drains to happen
    let idle = sc.idle_eff().unwrap_or(0);
    sc.end_at = horizon_ms * MS + 3 * idle + 20 * SEC;
    w.wake_at(sc.end_at, TAG_END);
    w.wake_at(300 * MS, TAG_PROBE);
    w.run(&mut sc);
    if w.violations.is_empty() {
        sc.idle_checks(&mut w);
    }
    if w.violations.is_empty() {
        // everything that was closed must have drained and told the endpoint exactly once
        for c in &w.conns {
            if c.frozen {
                continue;
            }
            let tr = sc.track.get(&c.inc).cloned().unwrap_or_default();
            let since = tr.closed_locally.as_ref().map(|x| x.0).or(tr.lost_at).unwrap_or(w.now);
            if (tr.closed_locally.is_some() || !c.lost.is_empty()) && !c.conn.is_drained() && w.now > since + 3 * sc.pto_ub(&w) + w.drv.late_max + SEC {
                let (k, d) = ("never-drained".to_string(), format!("inc{} closed/lost at {:?} is still not drained at {}", c.inc, tr.closed_locally.as_ref().map(|x| x.0).or(tr.lost_at).map(fmt_t), fmt_t(w.now)));
                w.violate(k, d);
                break;
            }
            if c.conn.is_drained() && c.drained_events != 1 {
                let (k, d) = ("drained-notification-count".to_string(), format!("inc{} is drained but emitted the Drained endpoint event {} times", c.inc, c.drained_events));
                w.violate(k, d);
                break;
            }
        }
    }
    if w.violations.is_empty() {
        w.check_drained_silence();
    }
    let ka = [sc.b.server_knobs.keep_alive_ms, sc.b.client_knobs.keep_alive_ms].into_iter().flatten().min();
    let ka_effective = match (ka, sc.idle_eff()) {
        (Some(k), Some(i)) => k * MS * 2 < i,
        _ => false,
    };
    if w.violations.is_empty() && mode == 2 && ka_effective {
        for c in &w.conns {
            if let Some(ConnectionError::TimedOut) = c.lost.first() {
                let (k, d) = ("timed-out-despite-keep-alive".to_string(), format!("inc{} timed out although keep-alive < idle timeout on a loss-free path", c.inc));
                w.violate(k, d);
                break;
            }
        }
    }
    if w.violations.is_empty() && (mode == 1 || mode == 4) {
        // a silent peer must be noticed when an idle timeout is configured
        if let (Some(node), Some(tc)) = (sc.crashed_node, sc.crash_time) {
            for c in &w.conns {
                if c.frozen || c.node == node {
                    continue;
                }
                let idle = match (sc.idle_for(c), sc.idle_eff()) {
                    (Some(a), Some(b)) => a.max(b),
                    (Some(a), None) => a,
                    _ => continue,
                };
                // datagrams the peer sent before it crashed may arrive long after (slow paths, late
                // delivery), and the first ack-eliciting packet sent after each restarts the timer
                let last_restart = {
                    let tap = w.tap.lock().unwrap();
                    let la = tap.pkts.iter().enumerate().filter(|(_, p)| !p.enc && p.ok && p.inc == c.inc).last().map(|(i, p)| (i, p.t));
                    match la {
                        Some((i, t)) => tap.pkts.iter().skip(i + 1).filter(|p| p.enc && p.inc == c.inc).find(|p| wire::frames(&p.payload).0.iter().any(|f| f.ack_eliciting())).map_or(t, |p| p.t.max(t)),
                        None => 0,
                    }
                };
                if c.lost.is_empty() && !c.conn.is_closed() && w.now > tc.max(c.created_at).max(last_restart) + idle + 3 * sc.pto_ub(&w) + 15 * SEC {
                    let (k, d) = ("silent-peer-never-timed-out".to_string(), format!("inc{}: peer crashed at {}, idle timeout {}, still no TimedOut at {}", c.inc, fmt_t(tc), fmt_t(idle), fmt_t(w.now)));
                    w.violate(k, d);
                    break;
                }
            }
        }
    }
    let mut o = RunOut::from_world(&mut w);
    o.config = format!("mode={} server={:?} client={:?} net={:?} closes={:?} crash={:?}/{:?} restart={:?}", mode, sc.b.server_knobs, sc.b.client_knobs, w.net, sc.closes, sc.crash, sc.crash_after, sc.restart);
    o.stats.insert("pto_upper_bound_ms", sc.pto_ub_stat);
    let _ = (Side::Client, Workload::new(Default::default()).sides.len(), sc.keepalive_world, sc.restarted);
    o
}

fn fam_close(ch: Chooser, ctx: &RunCtx) -> RunOut {
    run(ch, ctx, BasicOpts { size_max: 60_000, ..Default::default() }, 0)
}
fn fam_crash(ch: Chooser, ctx: &RunCtx) -> RunOut {
    run(ch, ctx, BasicOpts { allow_corrupt: false, ..Default::default() }, 1)
}
fn fam_keepalive(ch: Chooser, ctx: &RunCtx) -> RunOut {
    run(ch, ctx, BasicOpts { keepalive_rate: 1000, streams_max: 2, size_max: 5000, ..Default::default() }, 2)
}
fn fam_crash_slow(ch: Chooser, ctx: &RunCtx) -> RunOut {
    run(ch, ctx, BasicOpts { allow_corrupt: false, streams_max: 2, size_max: 5000, ..Default::default() }, 4)
}
fn fam_restart(ch: Chooser, ctx: &RunCtx) -> RunOut {
    run(ch, ctx, BasicOpts { allow_corrupt: false, retry: 0, ..Default::default() }, 3)
}

pub fn spec() -> PropSpec {
    PropSpec {
        id: "C08",
        families: vec![
            Family { name: "close-anytime", f: fam_close, weight: 45 },
            Family { name: "peer-crash", f: fam_crash, weight: 20 },
            Family { name: "peer-crash-slow-path", f: fam_crash_slow, weight: 10 },
            Family { name: "keep-alive", f: fam_keepalive, weight: 10 },
            Family { name: "server-restart", f: fam_restart, weight: 15 },
        ],
        quick_worlds: 160_000,
        thorough_worlds: 2_700_000,
        panic_is_violation: false,
        rule: "each world = a workload terminated by application close(s) at a chosen instant (optionally with a large burst queued first), by a peer crash after a chosen prefix, by a server restart (stateless reset), or left running under keep-alive; datagrams are replayed at drained connections; non-trivial = a fault/termination fired; distinct = distinct abstract-event signature",
        assumptions: vec![
            "PTO upper bound = largest probe timeout any connection of the world reported through the read-only probe, sampled after every step (RTT samples are not bounded by path delays when acknowledgements are lost, so no hook-free bound is sound)",
            "idle window: [last first-seen accepted packet + idle, last legitimate restart + max(idle, 3*PTO_ub) + driver lateness]",
        ],
        real: super::REAL.to_vec(),
        stub: super::STUB.to_vec(),
    }
}
