//! C07 — unvalidated addresses are never sent more than 3x what they sent.
//!
//! Oracle: an address-validation ledger kept from observable facts only.
//!   * per (server connection, remote address): bytes of datagrams the endpoint handed to that
//!     connection from that address, bytes of datagrams the connection sent there, and whether
//!     the address counts as validated (token-validated Incoming, a Handshake packet accepted
//!     from it, or a PATH_RESPONSE accepted from it). Every datagram sent to an unvalidated
//!     address must *start* while sent < 3 x received (the documented allowance: once any budget
//!     remains one datagram may be completed).
//!   * per endpoint: a stateless reset (short-header response without connection) is strictly
//!     smaller than the datagram that provoked it, and two resets are at least the configured
//!     interval apart.
//!   * a supported-version Initial in a datagram shorter than 1200 bytes creates no Incoming and
//!     draws no response.
//!
//! Workloads: honest clients with big or small certificate chains whose return path is cut so
//! that only server timers fire; "spoofed" handshakes (the genuine ClientHello re-protected under
//! a fresh DCID, sent from an address that never answers) of every size; short Initials; bursts of
//! short-header datagrams of all sizes with unknown connection IDs; migration to new paths.

use std::collections::BTreeMap;
use std::net::SocketAddr;

use quinn_proto::{ConnectionId, Side};

use crate::app::Workload;
use crate::cfgs;
use crate::chooser::Chooser;
use crate::runner::{Family, PropSpec, RunCtx, RunOut};
use crate::scen::{Basic, BasicOpts, Oracle, TAG_USER};
use crate::tap::NO_INC;
use crate::wire::{self, Frame, LongType, PublicHeader, Space};
use crate::world::{IncomingAction, Ns, Routed, Scenario, World, MS};

#[derive(Default, Clone, Debug)]
struct PathLedger {
    recv: u64,
    sent: u64,
    validated: bool,
}

pub struct AmpOracle {
    hd_seen: usize,
    tx_seen: usize,
    pk_seen: usize,
    ac_seen: usize,
    paths: BTreeMap<(u32, SocketAddr), PathLedger>,
    /// the same ledger, started afresh every time the connection switches to the address (what an
    /// implementation with per-path-instance counters enforces)
    inst: BTreeMap<(u32, SocketAddr), PathLedger>,
    last_remote: BTreeMap<u32, SocketAddr>,
    last_reset: BTreeMap<u32, Ns>,
    pub min_reset_interval: Ns,
    pub unvalidated_dgrams: u64,
    pub tight: u64,
    pub resets: u64,
}

impl AmpOracle {
    pub fn new(min_reset_interval: Ns) -> Self {
        Self { hd_seen: 0, tx_seen: 0, pk_seen: 0, ac_seen: 0, paths: BTreeMap::new(), inst: BTreeMap::new(), last_remote: BTreeMap::new(), last_reset: BTreeMap::new(), min_reset_interval, unvalidated_dgrams: 0, tight: 0, resets: 0 }
    }
}

impl Oracle for AmpOracle {
    fn after_step(&mut self, w: &mut World, _wl: &Workload) {
        let mut problem: Option<(String, String)> = None;
        // connections created: the creating datagram counts as received; a token validates
        for &(inc, dgram, token_validated) in &w.accepts[self.ac_seen..] {
            let d = &w.dgrams[dgram as usize];
            for m in [&mut self.paths, &mut self.inst] {
                let l = m.entry((inc, d.src)).or_default();
                l.recv += d.bytes.len() as u64;
                l.validated |= token_validated;
            }
            self.last_remote.insert(inc, d.src);
        }
        self.ac_seen = w.accepts.len();
        // datagrams handed to connections
        let mut provoking: Option<(u32, usize)> = None;
        for h in &w.handled[self.hd_seen..] {
            let d = &w.dgrams[h.dgram as usize];
            match h.routed {
                Routed::Conn(inc) => {
                    if w.conns[inc as usize].side == Side::Server {
                        let now_remote = w.conns[inc as usize].conn.remote_address();
                        if self.last_remote.get(&inc) != Some(&now_remote) {
                            // the connection switched paths while handling this datagram
                            self.inst.insert((inc, now_remote), PathLedger::default());
                            self.last_remote.insert(inc, now_remote);
                            w.probes.hit("server_switched_path");
                        }
                        self.paths.entry((inc, d.src)).or_default().recv += d.bytes.len() as u64;
                        self.inst.entry((inc, d.src)).or_default().recv += d.bytes.len() as u64;
                    }
                }
                Routed::Response(_) => provoking = Some((h.dgram, d.bytes.len())),
                Routed::None | Routed::New => {}
            }
            // a supported-version Initial in a short datagram: no state, no reply
            if d.bytes.len() < 1200 {
                if let Some((_, PublicHeader::Long { ty: LongType::Initial, version: 1, .. })) = wire::walk_datagram(&d.bytes, 0).first() {
                    if h.node == 0 && !matches!(h.routed, Routed::None | Routed::Conn(_)) {
                        problem = Some(("short-initial-datagram-answered".into(), format!("a {}-byte datagram carrying a version-1 Initial made the server endpoint {}", d.bytes.len(), match h.routed { Routed::New => "create an Incoming".to_string(), Routed::Response(n) => format!("send a {}-byte response", n), _ => String::new() })));
                    }
                    w.probes.hit("short_initial_delivered");
                }
            }
        }
        self.hd_seen = w.handled.len();
        // a path change without a datagram is the fallback to the previous path after a failed
        // validation (timer-driven): that path's counters live on, but the next packet from the
        // abandoned address starts a new attempt
        for c in &w.conns {
            if c.side == Side::Server && !c.drained_handled {
                let r = c.conn.remote_address();
                if self.last_remote.get(&c.inc).is_some_and(|l| *l != r) {
                    self.last_remote.insert(c.inc, r);
                    w.probes.hit("server_fell_back_by_timer");
                }
            }
        }
        // validation events from the acceptance ledger
        {
            let tap = w.tap.lock().unwrap();
            for p in &tap.pkts[self.pk_seen..] {
                if p.enc || !p.ok || p.inc == NO_INC || p.dgram == u32::MAX || (p.inc as usize) >= w.conns.len() {
                    continue;
                }
                if w.conns[p.inc as usize].side != Side::Server {
                    continue;
                }
                let src = w.dgrams[p.dgram as usize].src;
                let validates = match p.space {
                    Space::Handshake => true,
                    Space::OneRtt => wire::frames(&p.payload).0.iter().any(|f| matches!(f, Frame::PathResponse(_))),
                    _ => false,
                };
                if validates {
                    self.paths.entry((p.inc, src)).or_default().validated = true;
                    self.inst.entry((p.inc, src)).or_default().validated = true;
                }
            }
            self.pk_seen = tap.pkts.len();
        }
        // datagrams sent
        for tx in &w.txlog[self.tx_seen..] {
            let seg = tx.segment_size.unwrap_or(tx.size.max(1));
            if tx.inc == NO_INC {
                // endpoint-level response
                let mut i = tx.first_dgram as usize;
                while i < w.dgrams.len() && !(w.dgrams[i].origin_inc == NO_INC && w.dgrams[i].genuine && w.dgrams[i].dst == tx.dst) {
                    i += 1;
                }
                if i >= w.dgrams.len() {
                    continue;
                }
                let b = &w.dgrams[i].bytes;
                let node = w.dgrams[i].origin_node;
                let is_reset = !b.is_empty() && b[0] & 0x80 == 0;
                if is_reset {
                    self.resets += 1;
                    w.probes.hit("stateless_reset_sent");
                    if let Some((pd, plen)) = provoking {
                        if tx.size >= plen {
                            problem = Some(("stateless-reset-not-smaller".into(), format!("a stateless reset of {} bytes answered datagram#{} of {} bytes", tx.size, pd, plen)));
                        }
                    }
                    if let Some(prev) = self.last_reset.get(&node) {
                        if w.now - *prev < self.min_reset_interval {
                            problem = Some(("stateless-resets-too-frequent".into(), format!("node{} sent stateless resets {} apart; configured minimum interval {}", node, crate::world::fmt_t(w.now - *prev), crate::world::fmt_t(self.min_reset_interval))));
                        }
                    }
                    self.last_reset.insert(node, w.now);
                }
                continue;
            }
            if w.conns[tx.inc as usize].side != Side::Server {
                continue;
            }
            // a timer may have moved the connection back to its previous path
            {
                let now_remote = w.conns[tx.inc as usize].conn.remote_address();
                if self.last_remote.get(&tx.inc) != Some(&now_remote) {
                    self.last_remote.insert(tx.inc, now_remote);
                }
            }
            let li = self.inst.entry((tx.inc, tx.dst)).or_default().clone();
            let l = self.paths.entry((tx.inc, tx.dst)).or_default();
            let mut off = 0usize;
            let mut isent = li.sent;
            while off < tx.size {
                let len = seg.min(tx.size - off);
                if !l.validated {
                    self.unvalidated_dgrams += 1;
                    if l.sent >= 3 * l.recv {
                        // would counters that start over with every switch to this address pass?
                        let kind = if isent < 3 * li.recv { "anti-amplification-budget-renewed-by-repeated-migration" } else { "anti-amplification-limit-exceeded" };
                        problem = Some((kind.into(), format!("inc{} started a {}-byte datagram to the unvalidated address {} after sending {} bytes there while only {} bytes were received from it (3x = {}); since it last switched to that address: sent {}, received {}", tx.inc, len, tx.dst, l.sent, l.recv, 3 * l.recv, isent, li.recv)));
                        break;
                    }
                    if l.sent + len as u64 >= 3 * l.recv {
                        self.tight += 1;
                    }
                }
                l.sent += len as u64;
                isent += len as u64;
                off += len;
            }
            self.inst.entry((tx.inc, tx.dst)).or_default().sent = isent;
        }
        self.tx_seen = w.txlog.len();
        if self.tight > 0 {
            w.probes.hit("amplification_budget_reached");
        }
        if let Some((k, d)) = problem {
            w.violate(k, d);
        }
    }
}

const TAG_ATTACK: u64 = TAG_USER + 700;

#[derive(Clone, Debug)]
enum Attack {
    /// the genuine ClientHello under a fresh DCID from an address that never answers
    SpoofedHello { size: usize, src_node: u32 },
    /// short-header datagram with an unknown connection ID
    UnknownShort { size: usize, src_node: u32 },
}

pub struct AmpScen {
    pub b: Basic,
    attacks: Vec<(Ns, Attack)>,
    server_crypto: std::sync::Arc<dyn quinn_proto::crypto::ServerConfig>,
    crafted: u32,
    cut_return_at: Option<Ns>,
}

fn put_var(out: &mut Vec<u8>, v: u64) {
    wire::put_var(out, v);
}

impl AmpScen {
    /// build a correctly protected client Initial carrying `payload` padded (or cut) to `size`
    fn craft_initial(&self, dcid: &[u8], scid: &[u8], payload: &[u8], size: usize) -> Option<Vec<u8>> {
        let keys = self.server_crypto.initial_keys(1, ConnectionId::new(dcid)).ok()?;
        let mut hdr = vec![0xc0u8];
        hdr.extend_from_slice(&1u32.to_be_bytes());
        hdr.push(dcid.len() as u8);
        hdr.extend_from_slice(dcid);
        hdr.push(scid.len() as u8);
        hdr.extend_from_slice(scid);
        put_var(&mut hdr, 0); // token
        // length field: 2-byte varint; pn 1 byte
        let overhead = hdr.len() + 2 + 1 + 16;
        if size < overhead + 4 {
            return None;
        }
        let body = size - overhead;
        let mut plain = payload.to_vec();
        plain.resize(body, 0); // PADDING (or truncation of the genuine padding)
        let len_field = 1 + body + 16;
        hdr.push(0x40 | (len_field >> 8) as u8);
        hdr.push(len_field as u8);
        let pn_off = hdr.len();
        hdr.push(0); // pn 0
        let header_len = hdr.len();
        let mut buf = hdr;
        buf.extend_from_slice(&plain);
        buf.resize(buf.len() + 16, 0);
        // the server *opens* with keys.remote; sealing with the same key object produces what it accepts
        keys.packet.remote.encrypt(0, &mut buf, header_len);
        keys.header.remote.encrypt(pn_off, &mut buf);
        Some(buf)
    }

    fn do_attack(&mut self, w: &mut World, a: Attack) {
        match a {
            Attack::SpoofedHello { size, src_node } => {
                // the first genuine client Initial's plaintext
                let (payload, scid) = {
                    let t = w.tap.lock().unwrap();
                    let Some(p) = t.pkts.iter().find(|p| p.enc && p.space == Space::Initial && p.inc != NO_INC && (p.inc as usize) < w.conns.len() && w.conns[p.inc as usize].side == Side::Client) else { return };
                    let scid = match wire::plain_header(&p.header) {
                        Ok(h) => h.scid,
                        _ => return,
                    };
                    (p.payload.clone(), scid)
                };
                // keep the frames, drop the padding, so that short sizes still carry the hello
                let end = wire::trailing_padding_start(&payload);
                let core = &payload[..end.min(payload.len())];
                self.crafted += 1;
                let mut dcid = [0u8; 8];
                dcid.copy_from_slice(&crate::chooser::mix(&[0xA77A, self.crafted as u64]).to_le_bytes());
                if let Some(bytes) = self.craft_initial(&dcid, &scid, core, size) {
                    let src = cfgs::addr(src_node, 7);
                    let at = w.now;
                    w.inject(at, src, self.b.server_addr, bytes, None, false, u32::MAX, "spoofed-hello");
                    w.faults.hit("spoofed_hello");
                }
            }
            Attack::UnknownShort { size, src_node } => {
                self.crafted += 1;
                let mut bytes = vec![0u8; size.max(1)];
                let mut r = crate::chooser::Rng::new(crate::chooser::mix(&[0x5407, self.crafted as u64]));
                for c in bytes.chunks_mut(8) {
                    let x = r.next_u64().to_le_bytes();
                    c.copy_from_slice(&x[..c.len()]);
                }
                bytes[0] = 0x40 | (bytes[0] & 0x3f);
                let src = cfgs::addr(src_node, 9);
                let at = w.now;
                w.inject(at, src, self.b.server_addr, bytes, None, false, u32::MAX, "unknown-short");
                w.faults.hit("unknown_short");
            }
        }
    }
}

impl Scenario for AmpScen {
    fn on_incoming(&mut self, w: &mut World, node: u32, incoming: &quinn_proto::Incoming, dgram: u32) -> IncomingAction {
        self.b.on_incoming(w, node, incoming, dgram)
    }
    fn on_accepted(&mut self, w: &mut World, inc: u32, dgram: u32) {
        // connections created by the attacker have no application
        if w.dgrams[dgram as usize].note == "spoofed-hello" {
            w.probes.hit("spoofed_connection_created");
            return;
        }
        self.b.on_accepted(w, inc, dgram)
    }
    fn on_event(&mut self, w: &mut World, inc: u32, ev: quinn_proto::Event) {
        self.b.on_event(w, inc, ev)
    }
    fn on_wake(&mut self, w: &mut World, tag: u64) {
        if tag >= TAG_ATTACK && tag < TAG_ATTACK + 4096 {
            let a = self.attacks[(tag - TAG_ATTACK) as usize].1.clone();
            self.do_attack(w, a);
        } else if tag == TAG_ATTACK + 5000 {
            // the clients' return path is cut for good: only server timers fire from here on
            let c = self.b.clients.clone();
            for n in c {
                w.net.partitions.insert((n, self.b.server));
            }
            w.faults.hit("return_path_cut");
        } else {
            self.b.on_wake(w, tag);
        }
    }
    fn after_step(&mut self, w: &mut World) {
        self.b.after_step(w)
    }
    fn done(&self, w: &World) -> bool {
        if self.cut_return_at.is_some() {
            // run until every server timer has given up
            return w.now > 120 * crate::world::SEC;
        }
        self.b.done(w) && self.attacks.iter().all(|(t, _)| *t < w.now)
    }
}

fn run(ch: Chooser, ctx: &RunCtx, mut opts: BasicOpts, n_attacks: u32, cut: bool) -> RunOut {
    let mut w = World::from_ctx(ch, ctx);
    opts.allow_corrupt = false;
    opts.cid_len_choices = vec![8, 8, 4, 20];
    if cut {
        opts.idle_off = false;
        opts.idle_choices = vec![Some(30_000), Some(5000), Some(60_000)];
    }
    let tls = cfgs::rustls_server(opts.big_cert, true);
    opts.server_tls = Some(tls.clone());
    let b = Basic::build(&mut w, opts);
    let mut attacks = Vec::new();
    let n = if n_attacks == 0 { 0 } else { w.ch.range("c07.n_attacks", 0, n_attacks as u64) };
    for _ in 0..n {
        let at = w.ch.range_log("c07.at_ms", 1, 4000) * MS + w.ch.range("c07.at_us", 0, 999) * 1000;
        let src_node = 100 + w.ch.choose("c07.src", 3);
        let a = if w.ch.chance("c07.kind", 1, 2) {
            Attack::SpoofedHello { size: *w.ch.pick("c07.hello_size", &[1200usize, 1199, 1200, 1201, 600, 1000, 1350, 1452]) + w.ch.choose("c07.hello_fine", 3) as usize, src_node }
        } else {
            Attack::UnknownShort { size: *w.ch.pick("c07.short_size", &[100usize, 5, 20, 21, 22, 38, 39, 40, 41, 42, 43, 60, 200, 1200, 1500]) + w.ch.choose("c07.short_fine", 3) as usize, src_node }
        };
        attacks.push((at, a));
    }
    for (i, (at, _)) in attacks.iter().enumerate() {
        w.wake_at(*at, TAG_ATTACK + i as u64);
    }
    let cut_return_at = if cut { Some(w.ch.range_log("c07.cut_ms", 0, 1500) * MS + w.ch.range("c07.cut_us", 0, 999) * 1000) } else { None };
    if let Some(t) = cut_return_at {
        w.wake_at(t, TAG_ATTACK + 5000);
    }
    let mut sc = AmpScen { b, attacks, server_crypto: cfgs::untapped_server_crypto(tls), crafted: 0, cut_return_at };
    sc.b.oracles.push(Box::new(AmpOracle::new(20 * MS)));
    w.run(&mut sc);
    if !cut {
        super::c01::end_checks(&mut w, &sc.b, false);
    }
    let mut o = RunOut::from_world(&mut w);
    o.config = format!("server={:?} client={:?} net={:?} retry={} attacks={:?} cut_return_at={:?} ops={:?}", sc.b.server_knobs, sc.b.client_knobs, w.net, sc.b.retry_first, sc.attacks, sc.cut_return_at, sc.b.ops);
    o
}

/// the client's return path dies at a drawn instant during or after the handshake: everything the
/// server sends from then on is driven by its timers alone
fn fam_timers_only(ch: Chooser, ctx: &RunCtx) -> RunOut {
    run(ch, ctx, BasicOpts { op_kinds: vec![1], ops_max: 1, big_cert: true, retry: 300, streams_max: 2, size_max: 20_000, ..Default::default() }, 4, true)
}
fn fam_timers_only_small(ch: Chooser, ctx: &RunCtx) -> RunOut {
    run(ch, ctx, BasicOpts { op_kinds: vec![1], ops_max: 1, retry: 300, streams_max: 2, size_max: 20_000, ..Default::default() }, 4, true)
}
/// spoofed handshakes, short Initials and reset provocations next to honest traffic
fn fam_attacks(ch: Chooser, ctx: &RunCtx) -> RunOut {
    run(ch, ctx, BasicOpts { op_kinds: vec![1, 0], ops_max: 2, big_cert: true, retry: 200, n_clients: 2, streams_max: 3, size_max: 30_000, ..Default::default() }, 12, false)
}
/// migration: the new path is unvalidated until the challenge is answered
fn fam_migration(ch: Chooser, ctx: &RunCtx) -> RunOut {
    run(ch, ctx, BasicOpts { op_kinds: vec![7, 7, 1], ops_max: 4, run_all_ops: true, retry: 0, streams_max: 4, size_max: 200_000, harness_cc_rate: 100, ..Default::default() }, 3, false)
}
/// lossy handshakes with big certificates (partial and repeated handshakes)
fn fam_lossy_handshake(ch: Chooser, ctx: &RunCtx) -> RunOut {
    run(ch, ctx, BasicOpts { op_kinds: vec![1], ops_max: 1, big_cert: true, retry: 300, directed_k: 14, directed_max: 4, max_drop: 400, streams_max: 2, size_max: 10_000, ..Default::default() }, 2, false)
}

pub fn spec() -> PropSpec {
    PropSpec {
        id: "C07",
        families: vec![
            Family { name: "timers-only-big-cert", f: fam_timers_only, weight: 25 },
            Family { name: "timers-only", f: fam_timers_only_small, weight: 10 },
            Family { name: "attacks", f: fam_attacks, weight: 30 },
            Family { name: "migration", f: fam_migration, weight: 15 },
            Family { name: "lossy-handshake", f: fam_lossy_handshake, weight: 20 },
        ],
        quick_worlds: 150_000,
        thorough_worlds: 1_800_000,
        panic_is_violation: true,
        rule: "each world = a server endpoint with honest clients (big or small certificate chain, Retry on/off) plus drawn attacker actions: the genuine ClientHello re-protected under a fresh DCID and sent from addresses that never answer, in datagrams of 600..1455 bytes (around 1200 exactly), short-header datagrams of 5..1502 bytes with unknown connection IDs at drawn instants, a return path that is cut at a drawn instant so that only server timers fire, client migration; loss / duplication / reordering as usual; non-trivial = a fault or attack fired; distinct = distinct abstract-event signature",
        assumptions: vec![
            "received bytes of a server connection = datagrams the endpoint handed to it from the address in question (plus the datagram that created it)",
            "an address is validated by: a token-validated Incoming, a Handshake packet accepted from it, or a PATH_RESPONSE accepted from it (all read from the tap's acceptance ledger, not from quinn's own flag)",
            "min_reset_interval is the harness default of 20 ms",
        ],
        real: super::REAL.to_vec(),
        stub: super::STUB.to_vec(),
    }
}
