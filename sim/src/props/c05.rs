//! C05 — a sender never exceeds the limits its peer advertised.
//!
//! Oracle: an independent credit ledger. For every connection, the limits "that have actually
//! arrived" are the peer's configured initial values plus the largest MAX_DATA /
//! MAX_STREAM_DATA / MAX_STREAMS values contained in packets this connection *accepted*
//! (acceptance ledger of the crypto tap). Every STREAM / RESET_STREAM frame the connection seals
//! (sender ledger) is checked against the ledger at that very instant.
//!
//! The last clause (the locally configured send window) has its own oracle, `SendWindowOracle`.

use std::collections::BTreeMap;

use quinn_proto::Side;

use crate::app::{SState, Workload};
use crate::cfgs::TKnobs;
use crate::chooser::Chooser;
use crate::runner::{Family, PropSpec, RunCtx, RunOut};
use crate::scen::{Basic, BasicOpts, Oracle};
use crate::tap::NO_INC;
use crate::util::Ranges;
use crate::wire::{self, Frame, Space};
use crate::world::World;

#[derive(Default, Clone)]
struct Credit {
    max_data: u64,
    max_stream_data: BTreeMap<u64, u64>,
    max_streams: [u64; 2], // bidi, uni
    /// highest offset sealed per stream
    sent: BTreeMap<u64, u64>,
    sent_total: u64,
    init: bool,
    /// initial per-stream limit / stream counts in force (change when a 0-RTT connection moves
    /// from remembered to newly negotiated parameters)
    stream_window_init: u64,
    streams_init: [u64; 2],
    switched: bool,
    early_seen: bool,
}

pub struct CreditOracle {
    pub server: TKnobs,
    pub client: TKnobs,
    seen: usize,
    credit: BTreeMap<u32, Credit>,
    pub frames_checked: u64,
    pub tight: u64,
    /// C17: (client connection, the server parameters negotiated for it, exempt from judgement):
    /// its 0-RTT packets are bound by `server` (remembered), everything later by these
    pub second: Option<(u32, TKnobs, bool)>,
    pub switches: u64,
}

impl CreditOracle {
    pub fn new(server: TKnobs, client: TKnobs) -> Self {
        Self { server, client, seen: 0, credit: BTreeMap::new(), frames_checked: 0, tight: 0, second: None, switches: 0 }
    }

    fn init_credit(c: &mut Credit, k: &TKnobs) {
        c.init = true;
        c.max_data = k.conn_window;
        c.max_streams = [k.max_bidi, k.max_uni];
        c.stream_window_init = k.stream_window;
        c.streams_init = [k.max_bidi, k.max_uni];
    }

    /// the handshake of a connection that may have sent 0-RTT data completed: the negotiated
    /// parameters replace the remembered ones (and the ledger starts over after a rejection)
    fn switch(&mut self, inc: u32, accepted: bool) {
        let Some((sec, k, _)) = self.second.clone() else { return };
        if sec != inc {
            return;
        }
        let c = self.credit.entry(inc).or_default();
        if c.switched {
            return;
        }
        c.switched = true;
        self.switches += 1;
        if c.early_seen && accepted {
            c.max_data = c.max_data.max(k.conn_window);
            c.max_streams = [c.max_streams[0].max(k.max_bidi), c.max_streams[1].max(k.max_uni)];
            c.stream_window_init = c.stream_window_init.max(k.stream_window);
            c.streams_init = [c.streams_init[0].max(k.max_bidi), c.streams_init[1].max(k.max_uni)];
        } else {
            *c = Credit { switched: true, ..Default::default() };
            Self::init_credit(c, &k);
        }
    }

    /// limits the *peer* of a connection on `side` configured
    fn peer_knobs(&self, side: Side) -> &TKnobs {
        if side == Side::Client {
            &self.server
        } else {
            &self.client
        }
    }

    fn stream_limit(&self, c: &Credit, _side: Side, id: u64) -> u64 {
        c.max_stream_data.get(&id).copied().unwrap_or(0).max(c.stream_window_init)
    }
}

impl Oracle for CreditOracle {
    fn after_step(&mut self, w: &mut World, wl: &Workload) {
        let tap = w.tap.clone();
        let t = tap.lock().unwrap();
        let mut problem: Option<(String, String)> = None;
        'outer: for p in &t.pkts[self.seen..] {
            if p.inc == NO_INC || (p.inc as usize) >= w.conns.len() {
                continue;
            }
            if !matches!(p.space, Space::OneRtt | Space::ZeroRtt) {
                continue;
            }
            let side = w.conns[p.inc as usize].side;
            if let Some((sec, k2, skip)) = &self.second {
                if *sec == p.inc {
                    if *skip {
                        continue;
                    }
                    if p.space == Space::ZeroRtt {
                        self.credit.entry(p.inc).or_default().early_seen = true;
                    } else if !self.credit.get(&p.inc).is_some_and(|c| c.switched) {
                        if self.credit.get(&p.inc).is_some_and(|c| c.early_seen) {
                            let accepted = w.conns[p.inc as usize].conn.accepted_0rtt();
                            self.switch(p.inc, accepted);
                        } else {
                            let k2 = k2.clone();
                            let c = self.credit.entry(p.inc).or_default();
                            c.switched = true;
                            Self::init_credit(c, &k2);
                        }
                    }
                }
            }
            let k = self.peer_knobs(side).clone();
            let c = self.credit.entry(p.inc).or_default();
            if !c.init {
                Self::init_credit(c, &k);
            }
            let (frames, _) = wire::frames(&p.payload);
            if !p.enc {
                if !p.ok {
                    continue;
                }
                for f in &frames {
                    match f {
                        Frame::MaxData(v) => c.max_data = c.max_data.max(*v),
                        Frame::MaxStreamData { id, max } => {
                            let e = c.max_stream_data.entry(*id).or_insert(0);
                            *e = (*e).max(*max);
                        }
                        Frame::MaxStreams { bidi, max } => {
                            let i = if *bidi { 0 } else { 1 };
                            c.max_streams[i] = c.max_streams[i].max(*max);
                        }
                        _ => {}
                    }
                }
                continue;
            }
            // sealed by p.inc: check
            for f in &frames {
                let (id, end) = match f {
                    Frame::Stream { id, offset, len, .. } => (*id, offset + *len as u64),
                    Frame::ResetStream { id, final_size, .. } => (*id, *final_size),
                    _ => continue,
                };
                self.frames_checked += 1;
                let c = self.credit.get(&p.inc).unwrap().clone();
                let lim = self.stream_limit(&c, side, id);
                if end > lim {
                    problem = Some(("stream-limit-exceeded".into(), format!("inc{} sealed {} on stream {} reaching offset {} but the stream data limit that has arrived is {}", p.inc, f.short_name(), id, end, lim)));
                    break 'outer;
                }
                if end == lim {
                    self.tight += 1;
                }
                // streams this side initiated must respect the stream-count limit
                let initiated_by_client = id & 1 == 0;
                if initiated_by_client == (side == Side::Client) {
                    let i = if id & 2 == 0 { 0 } else { 1 };
                    if (id >> 2) >= c.max_streams[i] {
                        problem = Some(("stream-count-exceeded".into(), format!("inc{} sealed {} on stream {} (index {}) but the {} stream limit that has arrived is {}", p.inc, f.short_name(), id, id >> 2, if i == 0 { "bidirectional" } else { "unidirectional" }, c.max_streams[i])));
                        break 'outer;
                    }
                }
                let c = self.credit.get_mut(&p.inc).unwrap();
                let prev = c.sent.get(&id).copied().unwrap_or(0);
                if end > prev {
                    c.sent.insert(id, end);
                    c.sent_total += end - prev;
                }
                if c.sent_total > c.max_data {
                    problem = Some(("connection-limit-exceeded".into(), format!("inc{} has sealed stream data up to a total of {} bytes (sum of highest offsets) but the connection data limit that has arrived is {}", p.inc, c.sent_total, c.max_data)));
                    break 'outer;
                }
                if c.sent_total == c.max_data {
                    self.tight += 1;
                }
            }
        }
        self.seen = t.pkts.len();
        drop(t);
        if let Some((k, d)) = problem {
            w.violate(k, d);
            return;
        }
        // application view: bytes accepted by write() never exceed the credit that has arrived
        if let Some((sec, _, skip)) = self.second.clone() {
            if !skip && wl.sides.get(&sec).is_some_and(|s| s.connected) && self.credit.get(&sec).is_some_and(|c| c.early_seen && !c.switched) {
                let accepted = w.conns[sec as usize].conn.accepted_0rtt();
                self.switch(sec, accepted);
            }
        }
        for (inc, s) in &wl.sides {
            if self.second.as_ref().is_some_and(|(sec, _, skip)| sec == inc && *skip) {
                continue;
            }
            let Some(c) = self.credit.get(inc) else { continue };
            let side = if s.is_client { Side::Client } else { Side::Server };
            let mut total = 0;
            for (sid, st) in &s.sends {
                total += st.written;
                let lim = self.stream_limit(c, side, *sid);
                if st.written > lim {
                    w.violate("write-accepted-beyond-stream-credit", format!("inc{} write() accepted {} bytes on stream {} but the stream data limit that has arrived is {}", inc, st.written, sid, lim));
                    return;
                }
                // opened streams respect the stream-count limit
                let mine = (sid & 1 == 0) == s.is_client;
                if mine {
                    let i = if sid & 2 == 0 { 0 } else { 1 };
                    if (sid >> 2) >= c.max_streams[i] {
                        w.violate("open-beyond-stream-credit", format!("inc{} open() returned stream {} (index {}) but the stream limit that has arrived is {}", inc, sid, sid >> 2, c.max_streams[i]));
                        return;
                    }
                }
            }
            if total > c.max_data {
                w.violate("write-accepted-beyond-connection-credit", format!("inc{} write() accepted {} bytes in total but the connection data limit that has arrived is {}", inc, total, c.max_data));
                return;
            }
            // open() must not refuse while credit that has arrived remains — only checkable
            // loosely: a refusal implies the side used up the *initial* credit at least
            for dir in 0..2 {
                if s.open_blocked[dir] {
                    let opened = s.sends.keys().filter(|sid| ((**sid & 1 == 0) == s.is_client) && ((**sid & 2 == 0) == (dir == 0))).count() as u64;
                    let init = c.streams_init[dir];
                    if opened < init && s.connected && s.lost.is_none() && !s.closed_locally {
                        w.violate("open-refused-with-credit-left", format!("inc{} open({}) returned None after only {} streams although the peer's initial limit is {}", inc, if dir == 0 { "Bi" } else { "Uni" }, opened, init));
                        return;
                    }
                }
            }
        }
    }
}

/// The send_window clause: a write() that accepts bytes never leaves more than the configured
/// `send_window` bytes written-and-unacknowledged on the connection.
///
/// Model (a lower bound of the true amount, so the check cannot raise a false alarm): for every
/// stream that has not been reset or abandoned, bytes accepted by write() minus the bytes of
/// [0, written) carried in some packet of this connection that a peer ACK frame *accepted by this
/// connection* covers. The endpoint itself may know of fewer acknowledged bytes (it forgets
/// packets it declared lost), never of more.
pub struct SendWindowOracle {
    pub server: TKnobs,
    pub client: TKnobs,
    seen: usize,
    /// (connection, Data-space packet number) → stream ranges sealed in it
    sealed: BTreeMap<(u32, u64), Vec<(u64, u64, u64)>>,
    acked: BTreeMap<(u32, u64), Ranges>,
    prev_written: BTreeMap<u32, u64>,
    pub writes_checked: u64,
    pub tight: u64,
    pub lowered_below_unacked: u64,
}

impl SendWindowOracle {
    pub fn new(server: TKnobs, client: TKnobs) -> Self {
        Self { server, client, seen: 0, sealed: BTreeMap::new(), acked: BTreeMap::new(), prev_written: BTreeMap::new(), writes_checked: 0, tight: 0, lowered_below_unacked: 0 }
    }
}

impl Oracle for SendWindowOracle {
    fn after_step(&mut self, w: &mut World, wl: &Workload) {
        {
            let tap = w.tap.clone();
            let t = tap.lock().unwrap();
            for p in &t.pkts[self.seen..] {
                if p.inc == NO_INC || !matches!(p.space, Space::OneRtt | Space::ZeroRtt) {
                    continue;
                }
                let (frames, _) = wire::frames(&p.payload);
                if p.enc {
                    let v: Vec<(u64, u64, u64)> = frames.iter().filter_map(|f| if let Frame::Stream { id, offset, len, .. } = f { Some((*id, *offset, offset + *len as u64)) } else { None }).collect();
                    if !v.is_empty() {
                        self.sealed.entry((p.inc, p.pn)).or_default().extend(v);
                    }
                } else if p.ok {
                    for f in &frames {
                        let Frame::Ack { ranges, .. } = f else { continue };
                        for &(lo, hi) in ranges {
                            let keys: Vec<(u32, u64)> = self.sealed.range((p.inc, lo)..=(p.inc, hi)).map(|(k, _)| *k).collect();
                            for k in keys {
                                for (sid, a, b) in self.sealed.remove(&k).unwrap() {
                                    self.acked.entry((p.inc, sid)).or_insert_with(Ranges::new).insert(a, b);
                                }
                            }
                        }
                    }
                }
            }
            self.seen = t.pkts.len();
        }
        for (inc, s) in &wl.sides {
            let prev = self.prev_written.get(inc).copied().unwrap_or(0);
            if s.bytes_written == prev {
                continue;
            }
            self.prev_written.insert(*inc, s.bytes_written);
            if s.early || wl.unchecked.contains(inc) {
                continue;
            }
            let window = wl.send_window_set.get(inc).copied().unwrap_or(if s.is_client { self.client.send_window } else { self.server.send_window });
            let mut unacked = 0u64;
            for (sid, st) in &s.sends {
                if matches!(st.state, SState::ResetCalled(_) | SState::StoppedReset(_) | SState::Abandoned) {
                    continue;
                }
                let a = self.acked.get(&(*inc, *sid)).map_or(0, |r| r.covered_below(st.written));
                unacked += st.written - a;
            }
            self.writes_checked += 1;
            if unacked == window {
                self.tight += 1;
                w.probes.hit("send_window_exactly_full_after_write");
            }
            if unacked > window {
                w.violate("write-accepted-beyond-send-window", format!("inc{} write() accepted bytes (total written {} -> {}) leaving at least {} bytes written and not acknowledged, but the configured send window is {}", inc, prev, s.bytes_written, unacked, window));
                return;
            }
        }
    }
}

fn run(ch: Chooser, ctx: &RunCtx, mut opts: BasicOpts, tiny: bool) -> RunOut {
    let mut w = World::from_ctx(ch, ctx);
    opts.op_kinds = vec![0, 1, 2, 3, 4, 2, 4, 9];
    opts.ops_max = 6;
    opts.allow_corrupt = false;
    if tiny {
        // emphasise limits of 0, 1, 2 and values around varint boundaries
        let mut sk = TKnobs::draw(&mut w.ch);
        let mut ck = TKnobs::draw(&mut w.ch);
        for k in [&mut sk, &mut ck] {
            k.stream_window = *w.ch.pick("c05.stream_window", &[64u64, 1, 2, 63, 65, 16_383, 16_384, 16_385, 1000]);
            k.conn_window = *w.ch.pick("c05.conn_window", &[64u64, 1, 2, 63, 65, 16_383, 16_384, 16_385, 5000, 100_000]);
            k.max_bidi = *w.ch.pick("c05.max_bidi", &[1u64, 0, 2, 3, 64]);
            k.max_uni = *w.ch.pick("c05.max_uni", &[1u64, 0, 2, 3, 64]);
        }
        opts.fixed_knobs = Some((sk, ck));
    }
    let mut sc = Basic::build(&mut w, opts);
    let or = CreditOracle::new(sc.server_knobs.clone(), sc.client_knobs.clone());
    sc.oracles.push(Box::new(or));
    sc.oracles.push(Box::new(SendWindowOracle::new(sc.server_knobs.clone(), sc.client_knobs.clone())));
    w.run(&mut sc);
    super::c01::end_checks(&mut w, &sc, false);
    let mut o = RunOut::from_world(&mut w);
    o.config = format!("server={:?} client={:?} net={:?} ops={:?}", sc.server_knobs, sc.client_knobs, w.net, sc.ops);
    o
}

fn fam_tiny(ch: Chooser, ctx: &RunCtx) -> RunOut {
    run(ch, ctx, BasicOpts { streams_max: 8, size_max: 30_000, ..Default::default() }, true)
}
fn fam_general(ch: Chooser, ctx: &RunCtx) -> RunOut {
    run(ch, ctx, BasicOpts { streams_max: 8, ..Default::default() }, false)
}
fn fam_multi(ch: Chooser, ctx: &RunCtx) -> RunOut {
    run(ch, ctx, BasicOpts { n_clients: 2, conns_per_client: 2, streams_max: 5, size_max: 20_000, ..Default::default() }, true)
}

pub fn spec() -> PropSpec {
    PropSpec {
        id: "C05",
        families: vec![Family { name: "tiny-limits", f: fam_tiny, weight: 50 }, Family { name: "general", f: fam_general, weight: 30 }, Family { name: "multi", f: fam_multi, weight: 20 }],
        quick_worlds: 120_000,
        thorough_worlds: 1_200_000,
        panic_is_violation: false,
        rule: "each world = stream workloads under limit configurations drawn from {0,1,2, values around 2^6 and 2^14, defaults}, run-time window / stream-limit changes, and network faults that delay, reorder, duplicate and drop the credit-carrying packets; non-trivial = a fault fired or >1 connection; distinct = distinct abstract-event signature",
        assumptions: vec!["initial limits are the peer's configured TransportConfig values (the TLS-carried transport parameters are not decoded by the harness)", "the send_window clause is judged against a lower bound of the unacknowledged amount (bytes accepted by write() on streams not reset, minus bytes carried in packets that an ACK frame accepted by the connection covers): the endpoint may know of fewer acknowledged bytes than that, never more, so an excess is always real"],
        real: super::REAL.to_vec(),
        stub: super::STUB.to_vec(),
    }
}
