//! C16 — unreliable datagrams: intact, at most once, never oversized.
//!
//! The datagram application model (`dgram.rs`) carries the oracle: content identity of every
//! received datagram against what the peer application's `send()` accepted (intact, at most
//! once), `send()` results against `max_size()` / `send_buffer_space()` and the configured send
//! buffer, a reference model of the outgoing queue (byte bound, oldest-first eviction with
//! `drop=true`), DATAGRAM frame sizes on the wire against the peer's limit, and — in families
//! without duplication or reordering — a FIFO reference of the receive buffer with oldest-first
//! overflow fed from the tap's acceptance ledger. The C13 MTU oracle runs alongside.

use crate::cfgs::TKnobs;
use crate::chooser::Chooser;
use crate::dgram::DgCfg;
use crate::runner::{Family, PropSpec, RunCtx, RunOut};
use crate::scen::{Basic, BasicOpts};
use crate::world::World;

fn run(ch: Chooser, ctx: &RunCtx, mut opts: BasicOpts, dg: DgCfg, tiny: bool) -> RunOut {
    let mut w = World::from_ctx(ch, ctx);
    w.drv.track_probe = true;
    opts.allow_corrupt = false;
    opts.idle_off = true;
    opts.dgram = Some(dg);
    let mut sk = TKnobs::draw(&mut w.ch);
    let mut ck = TKnobs::draw(&mut w.ch);
    for k in [&mut sk, &mut ck] {
        if tiny {
            k.dgram_recv_buf = *w.ch.pick("c16.recv_buf", &[Some(1_250_000usize), None, Some(1), Some(100), Some(1200), Some(3000), Some(65_535), Some(70_000)]);
            k.dgram_send_buf = *w.ch.pick("c16.send_buf", &[1024 * 1024usize, 0, 1, 100, 1300, 3000, 10_000]);
        } else {
            k.dgram_recv_buf = *w.ch.pick("c16.recv_buf", &[Some(1_250_000usize), Some(1_250_000), Some(5000), None]);
            k.dgram_send_buf = *w.ch.pick("c16.send_buf", &[1024 * 1024usize, 1024 * 1024, 5000]);
        }
        k.initial_mtu = *w.ch.pick("c16.initial_mtu", &[1200u16, 1200, 1400, 1452]);
        k.mtud_upper = *w.ch.pick("c16.mtud_upper", &[1452u16, 1452, 4000, 9000]);
        k.sane();
    }
    opts.fixed_knobs = Some((sk, ck));
    let mut sc = Basic::build(&mut w, opts);
    let or = super::c13::MtuOracle::new(&sc);
    sc.oracles.push(Box::new(or));
    w.run(&mut sc);
    super::c02::liveness_end_checks(&mut w, &sc);
    if let Some(dg) = sc.dg.as_mut() {
        dg.end_checks(&mut w);
    }
    let mut o = RunOut::from_world(&mut w);
    o.config = format!("server={:?} client={:?} net={:?} fault_end_ms={} ops={:?}", sc.server_knobs, sc.client_knobs, w.net, sc.fault_end / 1_000_000, sc.ops);
    if let Some(dg) = sc.dg.as_ref() {
        o.stats.insert("datagrams_accepted", dg.sides.values().map(|s| s.accepted_n).sum::<u64>() as f64);
        o.stats.insert("datagrams_received", dg.sides.values().map(|s| s.received_n).sum::<u64>() as f64);
    }
    o
}

/// loss only, slow readers, small buffers: strict FIFO / oldest-first reference on both ends
fn fam_fifo(ch: Chooser, ctx: &RunCtx) -> RunOut {
    run(
        ch,
        ctx,
        BasicOpts { op_kinds: vec![1, 5], ops_max: 2, allow_dup: false, allow_reorder: false, allow_late: true, streams_max: 2, size_max: 20_000, link_mtu_choices: vec![65_535, 1200, 1452], ..Default::default() },
        DgCfg { strict_fifo: true, slow_reader: 400, ..Default::default() },
        true,
    )
}

/// everything at once: loss, duplication, reordering, stream traffic, window ops
fn fam_mixed(ch: Chooser, ctx: &RunCtx) -> RunOut {
    run(ch, ctx, BasicOpts { op_kinds: vec![0, 1, 2, 3, 4, 9], ops_max: 3, streams_max: 4, size_max: 60_000, ..Default::default() }, DgCfg::default(), true)
}

/// MTU increases and black-hole fallback while datagrams are queued
fn fam_mtu(ch: Chooser, ctx: &RunCtx) -> RunOut {
    run(
        ch,
        ctx,
        BasicOpts { op_kinds: vec![5, 5, 1], ops_max: 4, streams_max: 3, size_max: 80_000, link_mtu_choices: vec![65_535, 1200, 1300, 1452, 4000], harness_cc_rate: 200, ..Default::default() },
        DgCfg { max_per_side: 60, burst_max: 20, ..Default::default() },
        false,
    )
}

/// migration: the maximum datagram size changes with the path
fn fam_migration(ch: Chooser, ctx: &RunCtx) -> RunOut {
    run(
        ch,
        ctx,
        BasicOpts { op_kinds: vec![7, 7, 5, 1], ops_max: 4, run_all_ops: true, streams_max: 2, size_max: 30_000, retry: 0, cid_len_choices: vec![8, 8, 4, 20], link_mtu_choices: vec![65_535, 1200, 1452], harness_cc_rate: 200, ..Default::default() },
        DgCfg { max_per_side: 60, burst_max: 20, ..Default::default() },
        false,
    )
}

/// maximum-size datagrams queued behind a tiny congestion window while the MTU estimate has
/// grown, then the client moves: the new path starts from the configured initial MTU
fn fam_stale_queue(ch: Chooser, ctx: &RunCtx) -> RunOut {
    let mut k = TKnobs::default();
    k.idle_ms = None;
    let mut sk = k.clone();
    sk.harness_cc = Some((3000, false));
    sk.mtud_upper = 1452;
    let mut ck = k.clone();
    ck.harness_cc = Some((5000, false));
    run_fixed(
        ch,
        ctx,
        BasicOpts { op_kinds: vec![7], ops_max: 3, streams_max: 1, size_max: 2000, retry: 0, fault_phase_max_ms: 2500, allow_drop: false, cid_len_choices: vec![8], fixed_knobs: Some((sk, ck)), run_all_ops: true, ..Default::default() },
        DgCfg { max_per_side: 80, burst_max: 30, horizon_ms: 1500, big: true, ..Default::default() },
    )
}

fn run_fixed(ch: Chooser, ctx: &RunCtx, mut opts: BasicOpts, dg: DgCfg) -> RunOut {
    let mut w = World::from_ctx(ch, ctx);
    w.drv.track_probe = true;
    opts.allow_corrupt = false;
    opts.idle_off = true;
    opts.dgram = Some(dg);
    let mut sc = Basic::build(&mut w, opts);
    let or = super::c13::MtuOracle::new(&sc);
    sc.oracles.push(Box::new(or));
    w.run(&mut sc);
    super::c02::liveness_end_checks(&mut w, &sc);
    if let Some(dg) = sc.dg.as_mut() {
        dg.end_checks(&mut w);
    }
    let mut o = RunOut::from_world(&mut w);
    o.config = format!("server={:?} client={:?} net={:?} fault_end_ms={} ops={:?}", sc.server_knobs, sc.client_knobs, w.net, sc.fault_end / 1_000_000, sc.ops);
    o
}

/// congestion-limited senders: queues fill, Blocked / DatagramsUnblocked cycles
fn fam_blocked(ch: Chooser, ctx: &RunCtx) -> RunOut {
    run(
        ch,
        ctx,
        BasicOpts { op_kinds: vec![1], ops_max: 1, streams_max: 2, size_max: 100_000, harness_cc_rate: 700, ..Default::default() },
        DgCfg { max_per_side: 120, burst_max: 40, horizon_ms: 1000, ..Default::default() },
        true,
    )
}

pub fn spec() -> PropSpec {
    PropSpec {
        id: "C16",
        families: vec![
            Family { name: "fifo", f: fam_fifo, weight: 25 },
            Family { name: "mixed", f: fam_mixed, weight: 25 },
            Family { name: "mtu", f: fam_mtu, weight: 20 },
            Family { name: "migration", f: fam_migration, weight: 10 },
            Family { name: "stale-queue", f: fam_stale_queue, weight: 10 },
            Family { name: "blocked", f: fam_blocked, weight: 10 },
        ],
        quick_worlds: 120_000,
        thorough_worlds: 1_200_000,
        panic_is_violation: true,
        rule: "each world = seeded datagram applications on both peers (sizes 0, 1, small, medium, max-1, max, max+1, far too large, around the send buffer; drop=true/false; bursts at drawn instants; slow readers) next to stream traffic, under drawn datagram_send/receive_buffer_size values of both peers (including disabled and tiny), loss / duplication / reordering, link-MTU changes, migration and congestion-limited senders; non-trivial = a fault fired or >1 connection; distinct = distinct abstract-event signature",
        assumptions: vec![
            "datagram content is a keyed pattern of (connection, sender, sequence): payloads shorter than the key are matched as a multiset",
            "the FIFO / oldest-first reference of the receive buffer is only used in families without duplication and reordering (which packets quinn's duplicate filter admits is otherwise ambiguous)",
            "transmission order of queued datagrams is not judged",
        ],
        real: super::REAL.to_vec(),
        stub: super::STUB.to_vec(),
    }
}
