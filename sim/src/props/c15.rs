//! C15 — path migration keeps the connection and cannot be hijacked.
//!
//! Workloads: transfers in both directions while the client's address changes (port-only and
//! full, repeated and overlapping), connection IDs rotate, challenges and responses are lost, and
//! an attacker forwards in-flight genuine datagrams from third addresses (so that they arrive
//! *before* the original and look like a migration) or replays old ones from there.
//!
//! Oracle (observable facts only):
//!   * a client never changes its remote address and never opens a packet that arrived from
//!     another address; the same for a server whose configuration forbids migration;
//!   * a migrating server that switched to an address nobody answers from is back on its previous
//!     path within three probe timeouts (bounded from the longest one-way delay seen, the peer's
//!     maximum ack delay and driver lateness);
//!   * after the faults stop the workload completes, which it cannot unless the server followed
//!     the client (wedge / no-progress oracle of C02).
//! What the server may send to the unvalidated address is judged by C07.

use std::collections::BTreeMap;
use std::net::SocketAddr;

use quinn_proto::Side;

use crate::app::Workload;
use crate::chooser::Chooser;
use crate::runner::{Family, PropSpec, RunCtx, RunOut};
use crate::scen::{Basic, BasicOpts, Oracle, TAG_USER};
use crate::tap::NO_INC;
use crate::world::{Fate, IncomingAction, Ns, Scenario, World, MS};

#[derive(Default)]
struct Track {
    remote: Option<SocketAddr>,
    /// (since, address, deadline) while the server sits on an address that never answers
    on_dead: Option<(Ns, SocketAddr, Ns)>,
    max_pto: Ns,
    /// whether the path was validated when last observed
    was_validated: bool,
}

pub struct MigOracle {
    pub server_migration: bool,
    pub initial_rtt: Ns,
    pk_seen: usize,
    hd_seen: usize,
    tr: BTreeMap<u32, Track>,
    pub dead_switches: u64,
    pub returns: u64,
    /// number of connections currently sitting on an address nobody answers from (shared with
    /// the scenario: the world is not over while a deadline is pending)
    pub pending: std::rc::Rc<std::cell::Cell<u32>>,
}

impl MigOracle {
    pub fn new(server_migration: bool, initial_rtt: Ns) -> Self {
        Self { server_migration, initial_rtt, pk_seen: 0, hd_seen: 0, tr: BTreeMap::new(), dead_switches: 0, returns: 0, pending: Default::default() }
    }
}

impl Oracle for MigOracle {
    fn after_step(&mut self, w: &mut World, _wl: &Workload) {
        let mut problem: Option<(String, String)> = None;
        // packets opened
        {
            let tap = w.tap.lock().unwrap();
            for p in &tap.pkts[self.pk_seen..] {
                if p.enc || !p.ok || p.inc == NO_INC || p.dgram == u32::MAX || (p.inc as usize) >= w.conns.len() {
                    continue;
                }
                let c = &w.conns[p.inc as usize];
                let fixed = c.side == Side::Client || !self.server_migration;
                if !fixed {
                    continue;
                }
                let src = w.dgrams[p.dgram as usize].src;
                let expect = self.tr.get(&p.inc).and_then(|t| t.remote);
                if let Some(e) = expect {
                    if src != e {
                        problem = Some(("packet-from-foreign-address-processed".into(), format!("inc{} ({:?}, migration not permitted) opened a packet that arrived from {} while its peer is {}", p.inc, c.side, src, e)));
                        break;
                    }
                }
            }
            self.pk_seen = tap.pkts.len();
        }
        let lateness = w.drv.late_max;
        // datagrams handed to connections in this step: a switch towards the source of one of
        // them is a migration attempt, any other switch is the fallback to the previous path
        let arrived: Vec<(u32, SocketAddr)> = w.handled[self.hd_seen..].iter().filter_map(|h| if let crate::world::Routed::Conn(i) = h.routed { Some((i, w.dgrams[h.dgram as usize].src)) } else { None }).collect();
        self.hd_seen = w.handled.len();
        for c in &w.conns {
            if c.drained_handled || c.frozen {
                continue;
            }
            let now_remote = c.conn.remote_address();
            let pr = c.conn.verif_probe();
            let pto = pr.pto.as_nanos() as Ns;
            let t = self.tr.entry(c.inc).or_default();
            t.max_pto = t.max_pto.max(pto);
            match t.remote {
                None => t.remote = Some(now_remote),
                Some(prev) if prev != now_remote => {
                    let fixed = c.side == Side::Client || !self.server_migration;
                    if fixed {
                        problem = Some(("remote-address-changed-without-permission".into(), format!("inc{} ({:?}) changed its remote address from {} to {} although migration is not permitted for it", c.inc, c.side, prev, now_remote)));
                        break;
                    }
                    t.remote = Some(now_remote);
                    if w.addr_map.contains_key(&now_remote) {
                        if t.on_dead.take().is_some() {
                            self.returns += 1;
                            w.probes.hit("server_left_dead_path");
                        }
                        w.probes.hit("server_followed_client");
                    } else if !arrived.contains(&(c.inc, now_remote)) || !(150..153).any(|n| crate::cfgs::addr(n, 0).ip() == now_remote.ip()) {
                        // (also: a late packet from an address the client used to have may pull
                        // the server there; that is a genuine former path, not a spoofed one)
                        // fell back to the previous path, which the client has left as well
                        t.on_dead = None;
                        w.probes.hit("server_fell_back_to_abandoned_path");
                    } else {
                        // nobody lives there: validation cannot succeed
                        self.dead_switches += 1;
                        w.probes.hit("server_switched_to_dead_address");
                        // Three probe timeouts, bounded from observable facts only: no RTT sample
                        // can exceed two of the longest one-way delays seen plus the peer's
                        // maximum ack delay and the driver's lateness (nor be below the configured
                        // initial RTT, which a fresh path starts from), and a PTO is at most
                        // srtt + 4 rttvar + max_ack_delay <= 5 Rmax + 25 ms. (The previous path's
                        // PTO that quinn uses may include a sample taken while handling the very
                        // packet that caused the switch, so its own reports lag behind.)
                        let rmax = (2 * w.max_owd + 25 * MS + lateness).max(self.initial_rtt);
                        // quinn takes the larger of the new path's probe timeout and that of the
                        // path it leaves. The latter is read from the retained previous path: the
                        // value last reported for it may lag, since the very packet that caused
                        // the switch may have carried an acknowledgement (an RTT sample) as well.
                        let prev_pto = pr.prev_path_pto.map_or(0, |d| d.as_nanos() as Ns);
                        let base = (5 * rmax + 25 * MS).max(t.max_pto).max(pto).max(prev_pto);
                        let mut bound = 3 * base + 2 * lateness + MS;
                        if !t.was_validated {
                            // The path left was itself unvalidated and is not retained, so its
                            // estimate after that last sample cannot be read any more. One sample
                            // moves a probe timeout by at most 9/8 of the sample, and no sample
                            // exceeds the age of the world: accept the deadline quinn armed if it
                            // is within that (loose, but sound) limit.
                            if let Some(armed) = pr.timers[4] {
                                let armed = w.to_ns(armed).saturating_sub(w.now);
                                let loose = 3 * (base + 2 * w.now) + 2 * lateness + MS;
                                bound = bound.max(armed.min(loose) + 2 * lateness + MS);
                            }
                        }
                        t.on_dead = Some((w.now, now_remote, w.now + bound));
                        if pr.timers[4].is_none() {
                            problem = Some(("no-path-validation-timer".into(), format!("inc{} switched to the unvalidated address {} without arming a path validation timer", c.inc, now_remote)));
                            break;
                        }
                    }
                }
                _ => {}
            }
            if let Some((since, addr, deadline)) = t.on_dead {
                if c.conn.is_closed() {
                    t.on_dead = None;
                } else if w.now > deadline {
                    problem = Some(("stuck-on-unvalidated-path".into(), format!("inc{} switched to {} at {} (nobody answers there) and is still there at {}: more than three probe timeouts (largest PTO it reported: {})", c.inc, addr, crate::world::fmt_t(since), crate::world::fmt_t(w.now), crate::world::fmt_t(t.max_pto))));
                    break;
                }
            }
            t.was_validated = pr.path_validated;
        }
        self.pending.set(self.tr.values().filter(|t| t.on_dead.is_some()).count() as u32);
        if let Some((k, d)) = problem {
            w.violate(k, d);
        }
    }
}

const TAG_FWD: u64 = TAG_USER + 1500;

#[derive(Clone, Debug)]
enum Act {
    /// copy an in-flight datagram towards `to_server` and deliver it first, from a third address
    /// (`cut_ms` > 0: the client's uplink is cut for that long afterwards, so that nothing of
    /// its own moves the server back before the validation timeout)
    Forward { to_server: bool, src_node: u32, cut_ms: u64 },
    /// replay an old delivered datagram from a third address
    Replay { to_server: bool, src_node: u32 },
}

pub struct MigScen {
    pub b: Basic,
    acts: Vec<(Ns, Act)>,
    pending: std::rc::Rc<std::cell::Cell<u32>>,
    /// the attacker may act as soon as the server has completed the handshake (the client may
    /// still be retransmitting Handshake packets then)
    early: bool,
}

impl Scenario for MigScen {
    fn on_incoming(&mut self, w: &mut World, node: u32, incoming: &quinn_proto::Incoming, dgram: u32) -> IncomingAction {
        // a replayed Initial from a third address creates a second server connection that nobody
        // completes; it has no application
        self.b.on_incoming(w, node, incoming, dgram)
    }
    fn on_accepted(&mut self, w: &mut World, inc: u32, dgram: u32) {
        if !w.dgrams[dgram as usize].genuine || w.dgrams[dgram as usize].note != "" {
            return;
        }
        self.b.on_accepted(w, inc, dgram)
    }
    fn on_event(&mut self, w: &mut World, inc: u32, ev: quinn_proto::Event) {
        self.b.on_event(w, inc, ev)
    }
    fn on_wake(&mut self, w: &mut World, tag: u64) {
        if tag >= TAG_FWD && tag < TAG_FWD + 4096 {
            let a = self.acts[(tag - TAG_FWD) as usize].1.clone();
            let server_addr = self.b.server_addr;
            match a {
                Act::Forward { to_server, src_node, cut_ms } => {
                    // racing the handshake from on-path is a denial of service QUIC does not
                    // claim to prevent: the attacker acts on established connections
                    let confirmed = self.b.client_incs.first().is_some_and(|i| self.b.wl.sides.get(i).is_some_and(|s| s.confirmed));
                    let server_done = self.b.client_incs.first().is_some_and(|i| {
                        let p = w.conns[*i as usize].peer;
                        p != NO_INC && self.b.wl.sides.get(&p).is_some_and(|s| s.connected)
                    });
                    if !(confirmed || (self.early && server_done)) {
                        return;
                    }
                    // the next datagram in flight in that direction
                    let cand = w.dgrams.iter().filter(|d| d.fate == Fate::InFlight && d.genuine && d.note == "" && d.deliver_at > w.now && (d.dst == server_addr) == to_server && d.origin_inc != NO_INC).min_by_key(|d| (d.deliver_at, d.id)).map(|d| (d.id, d.dst, d.bytes.clone(), d.ecn));
                    if let Some((id, dst, bytes, ecn)) = cand {
                        let src = crate::cfgs::addr(src_node, 11);
                        let at = w.now;
                        w.inject(at, src, dst, bytes, ecn, false, id, "forwarded");
                        w.faults.hit(if to_server { "forwarded_to_server" } else { "forwarded_to_client" });
                        if cut_ms > 0 && to_server {
                            let c = self.b.clients[0];
                            w.net.partitions.insert((c, self.b.server));
                            w.faults.hit("uplink_cut_after_forward");
                            w.wake_in(cut_ms * MS, TAG_USER - 1);
                        }
                    }
                }
                Act::Replay { to_server, src_node } => {
                    let n = w.dgrams.iter().filter(|d| d.fate == Fate::Delivered && d.genuine && d.note == "" && (d.dst == server_addr) == to_server && d.origin_inc != NO_INC).count();
                    if n > 0 {
                        let k = w.ch.choose("c15.replay_pick", n as u32) as usize;
                        let (id, dst, bytes, ecn) = w.dgrams.iter().filter(|d| d.fate == Fate::Delivered && d.genuine && d.note == "" && (d.dst == server_addr) == to_server && d.origin_inc != NO_INC).nth(n - 1 - k.min(n - 1)).map(|d| (d.id, d.dst, d.bytes.clone(), d.ecn)).unwrap();
                        let src = crate::cfgs::addr(src_node, 12);
                        let at = w.now;
                        w.inject(at, src, dst, bytes, ecn, false, id, "replayed-elsewhere");
                        w.faults.hit(if to_server { "replayed_to_server" } else { "replayed_to_client" });
                    }
                }
            }
        } else {
            self.b.on_wake(w, tag);
        }
    }
    fn after_step(&mut self, w: &mut World) {
        self.b.after_step(w)
    }
    fn done(&self, w: &World) -> bool {
        self.b.done(w) && self.acts.iter().all(|(t, _)| *t < w.now) && self.pending.get() == 0
    }
}

fn run(ch: Chooser, ctx: &RunCtx, opts: BasicOpts, n_acts: u32) -> RunOut {
    run2(ch, ctx, opts, n_acts, false)
}

fn run2(ch: Chooser, ctx: &RunCtx, mut opts: BasicOpts, n_acts: u32, early: bool) -> RunOut {
    let mut w = World::from_ctx(ch, ctx);
    w.drv.track_probe = true;
    opts.allow_corrupt = false;
    opts.idle_off = true;
    opts.retry = 0;
    opts.cid_len_choices = vec![8, 8, 4, 20];
    opts.server_migration = !w.ch.chance("c15.migration_off", 1, 4);
    if !opts.server_migration {
        // a server that forbids migration ignores a client that moved: by design the connection
        // is dead then. Keep the client where it is and let only the attacker act.
        opts.op_kinds = opts.op_kinds.iter().map(|k| if *k == 7 { 1 } else { *k }).collect();
    }
    opts.run_all_ops = true;
    let b = Basic::build(&mut w, opts);
    let mut acts = Vec::new();
    let n = if n_acts == 0 { 0 } else { w.ch.range("c15.n_acts", 0, n_acts as u64) };
    let horizon = b.fault_end / MS + 2500;
    for _ in 0..n {
        let at = if early { w.ch.range("c15.act_early_us", 0, (8 * w.net.base_delay + 100 * MS) / 1000) * 1000 } else { w.ch.range("c15.act_ms", 1, horizon) * MS + w.ch.range("c15.act_us", 0, 999) * 1000 };
        let to_server = !w.ch.chance("c15.to_client", 1, 3);
        let src_node = 150 + w.ch.choose("c15.src", 3);
        let a = if w.ch.chance("c15.replay", 1, 3) { Act::Replay { to_server, src_node } } else { Act::Forward { to_server, src_node, cut_ms: if w.ch.chance("c15.cut", 1, 2) { w.ch.range_log("c15.cut_ms", 1, 20_000) } else { 0 } } };
        acts.push((at, a));
    }
    for (i, (at, _)) in acts.iter().enumerate() {
        w.wake_at(*at, TAG_FWD + i as u64);
    }
    let mig = b.opts.server_migration;
    let irtt = b.server_knobs.initial_rtt_ms * MS;
    let or = MigOracle::new(mig, irtt);
    let mut sc = MigScen { b, acts, pending: or.pending.clone(), early };
    sc.b.oracles.push(Box::new(or));
    // "limits what it sends there until validation succeeds": the per-address byte ledger of C07
    sc.b.oracles.push(Box::new(super::c07::AmpOracle::new(20 * MS)));
    w.run(&mut sc);
    super::c02::liveness_end_checks(&mut w, &sc.b);
    let mut o = RunOut::from_world(&mut w);
    o.config = format!("migration={} server={:?} client={:?} net={:?} fault_end_ms={} ops={:?} acts={:?}", mig, sc.b.server_knobs, sc.b.client_knobs, w.net, sc.b.fault_end / 1_000_000, sc.b.ops, sc.acts);
    o
}

fn fam_rebinds(ch: Chooser, ctx: &RunCtx) -> RunOut {
    run(ch, ctx, BasicOpts { op_kinds: vec![7, 7, 7, 1, 0], ops_max: 6, streams_max: 4, size_max: 150_000, cid_lifetime_ms: None, ..Default::default() }, 0)
}
fn fam_hijack(ch: Chooser, ctx: &RunCtx) -> RunOut {
    run(ch, ctx, BasicOpts { op_kinds: vec![7, 1, 0], ops_max: 3, streams_max: 4, size_max: 150_000, ..Default::default() }, 10)
}
fn fam_rotation(ch: Chooser, ctx: &RunCtx) -> RunOut {
    run(ch, ctx, BasicOpts { op_kinds: vec![7, 7, 1], ops_max: 5, streams_max: 3, size_max: 100_000, cid_lifetime_ms: Some(300), ..Default::default() }, 6)
}
/// the client uploads and the server has nothing of its own to send: on an unvalidated path
/// its packets are acknowledgements that carry the PATH_CHALLENGE
fn fam_upload(ch: Chooser, ctx: &RunCtx) -> RunOut {
    run(ch, ctx, BasicOpts { op_kinds: vec![7, 7, 7, 1], ops_max: 6, streams_max: 3, size_max: 300_000, server_plans: false, max_drop: 400, harness_cc_rate: 600, ..Default::default() }, 4)
}
/// the attacker forwards packets right after the server completed the handshake, while the
/// client may still be retransmitting its Handshake flight (lossy handshakes)
fn fam_early_hijack(ch: Chooser, ctx: &RunCtx) -> RunOut {
    run2(ch, ctx, BasicOpts { op_kinds: vec![1], ops_max: 1, streams_max: 3, size_max: 60_000, directed_k: 12, directed_max: 3, max_drop: 300, ..Default::default() }, 6, true)
}
fn fam_lossy(ch: Chooser, ctx: &RunCtx) -> RunOut {
    run(ch, ctx, BasicOpts { op_kinds: vec![7, 7, 6, 1], ops_max: 5, streams_max: 3, size_max: 60_000, max_drop: 400, ..Default::default() }, 4)
}

pub fn spec() -> PropSpec {
    PropSpec {
        id: "C15",
        families: vec![
            Family { name: "rebinds", f: fam_rebinds, weight: 30 },
            Family { name: "hijack", f: fam_hijack, weight: 30 },
            Family { name: "cid-rotation", f: fam_rotation, weight: 20 },
            Family { name: "lossy", f: fam_lossy, weight: 20 },
            Family { name: "upload", f: fam_upload, weight: 15 },
            Family { name: "early-hijack", f: fam_early_hijack, weight: 15 },
        ],
        quick_worlds: 200_000,
        thorough_worlds: 2_700_000,
        panic_is_violation: true,
        rule: "each world = transfers in both directions while the client's address changes (port-only and full, up to six times, at drawn instants after the handshake), connection IDs rotate (300 ms lifetime in one family), challenges / responses / data are lost, duplicated and reordered, links are partitioned, and an attacker forwards in-flight genuine datagrams (delivered before the original) or replays delivered ones from third addresses towards the server or the client; server migration permitted in 3 of 4 worlds; non-trivial = a fault fired; distinct = distinct abstract-event signature",
        assumptions: vec![
            "'three probe timeouts' is measured against the largest PTO the connection itself reported (verif-probe accessor) up to the switch, plus twice the driver's maximum lateness and 1 ms",
            "an address that belongs to no endpoint of the world never answers; the attacker holds no keys",
            "what may be sent to an unvalidated address is judged by the C07 check",
        ],
        real: super::REAL.to_vec(),
        stub: super::STUB.to_vec(),
    }
}
