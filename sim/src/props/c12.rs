//! C12 — sending respects the congestion window; loss accounting balances.

use std::time::{Duration, Instant};

use quinn_proto::congestion::{BbrConfig, ControllerFactory, CubicConfig, NewRenoConfig};

use crate::app::Workload;
use crate::chooser::Chooser;
use crate::runner::{Family, PropSpec, RunCtx, RunOut};
use crate::scen::{Basic, BasicOpts, Oracle};
use crate::tap::NO_INC;
use crate::wire::{self, Frame, Space};
use crate::world::World;

#[derive(Default)]
pub struct CcOracle {
    tx_seen: usize,
    pub gated_sends_checked: u64,
    pub exempt_sends: u64,
    pub balance_checks: u64,
}

fn is_mtu_probe(frames: &[Frame]) -> bool {
    !frames.is_empty() && frames.iter().all(|f| matches!(f, Frame::Ping | Frame::ImmediateAck | Frame::Padding(_))) && frames.iter().any(|f| matches!(f, Frame::Ping))
}

impl Oracle for CcOracle {
    fn after_step(&mut self, w: &mut World, _wl: &Workload) {
        // balance: bytes in flight == sum over tracked packets, always
        for c in &w.conns {
            if c.frozen || c.conn.is_drained() {
                continue;
            }
            let p = c.conn.verif_probe();
            self.balance_checks += 1;
            if p.in_flight_bytes != p.tracked_in_flight_bytes || p.in_flight_ack_eliciting != p.tracked_ack_eliciting {
                let (k, d) = ("in-flight-accounting-out-of-balance".to_string(), format!("inc{}: bytes in flight {} / ack-eliciting {} but the packets still tracked on this path add up to {} / {}", c.inc, p.in_flight_bytes, p.in_flight_ack_eliciting, p.tracked_in_flight_bytes, p.tracked_ack_eliciting));
                w.violate(k, d);
                return;
            }
            if p.tracked_packets == 0 && (p.in_flight_bytes != 0 || p.in_flight_ack_eliciting != 0) && !p.has_prev_path {
                let (k, d) = ("in-flight-not-zero-when-all-acked".to_string(), format!("inc{}: nothing is tracked any more but {} bytes / {} packets are still counted in flight", c.inc, p.in_flight_bytes, p.in_flight_ack_eliciting));
                w.violate(k, d);
                return;
            }
        }
        // window: after a congestion-controlled send, bytes in flight stay below the window
        let n = w.txlog.len();
        let mut problem = None;
        for tx in &w.txlog[self.tx_seen..n] {
            let (Some(b), Some(a)) = (&tx.before, &tx.after) else { continue };
            if tx.inc == NO_INC || tx.pk_from == usize::MAX {
                continue;
            }
            let tap = w.tap.lock().unwrap();
            let mut ack_eliciting = false;
            let probe_pending = b.loss_probes.iter().any(|x| *x > 0);
            let mut exempt = false;
            // frames that make a packet count as data for the window rule (a PATH_CHALLENGE riding
            // on a data packet does not turn it into a path-validation packet)
            let mut data_eliciting = false;
            // is every ack-eliciting packet of this transmit coalesced behind a non-eliciting
            // packet of a lower packet number space in the same datagram?
            let mut first_in_dgram_eliciting: Option<bool> = None;
            let mut bytes_in_dgram = 0usize;
            let seg = tx.segment_size.unwrap_or(tx.size.max(1));
            let mut only_coalesced_eliciting = true;
            for p in &tap.pkts[tx.pk_from..tx.pk_to.min(tap.pkts.len())] {
                if !p.enc || p.inc != tx.inc {
                    continue;
                }
                let (fr, _) = wire::frames(&p.payload);
                let el = fr.iter().any(|f| f.ack_eliciting());
                if bytes_in_dgram >= seg {
                    bytes_in_dgram = 0;
                    first_in_dgram_eliciting = None;
                }
                if first_in_dgram_eliciting.is_none() {
                    first_in_dgram_eliciting = Some(el);
                    if el {
                        only_coalesced_eliciting = false;
                    }
                }
                bytes_in_dgram += p.header.len() + p.payload.len() + 16;
                if fr.iter().any(|f| f.ack_eliciting()) {
                    ack_eliciting = true;
                }
                if fr.iter().any(|f| matches!(f, Frame::ConnectionClose { .. } | Frame::ApplicationClose { .. })) {
                    exempt = true;
                }
                if fr.iter().any(|f| f.ack_eliciting() && !matches!(f, Frame::PathChallenge(_) | Frame::PathResponse(_))) {
                    data_eliciting = true;
                }
                // (with a `minimum_change` of 1 the search can end up probing the size it has
                // already confirmed, or one below: a probe all the same — PING [+ IMMEDIATE_ACK] +
                // padding, alone in its transmit, counted as a probe by the connection's statistics)
                if p.space == Space::OneRtt && is_mtu_probe(&fr) && tx.mtu_probe && tx.pk_to - tx.pk_from == 1 {
                    exempt = true;
                }
            }
            drop(tap);
            if !ack_eliciting {
                continue;
            }
            if !data_eliciting {
                // nothing but path validation frames
                exempt = true;
            }
            if exempt {
                self.exempt_sends += 1;
                continue;
            }
            if probe_pending {
                // "at most two probe packets per probe timeout": a transmit that is only allowed
                // because a loss probe is pending must use that probe up
                self.exempt_sends += 1;
                let used = b.loss_probes.iter().sum::<u32>() > a.loss_probes.iter().sum::<u32>();
                if !used && a.in_flight_bytes >= b.window && a.in_flight_bytes > b.in_flight_bytes {
                    let kind = if only_coalesced_eliciting { "coalesced-packet-bypasses-congestion-window" } else { "loss-probe-exemption-not-consumed" };
                    problem = Some((kind.to_string(), format!("inc{}: a poll_transmit of {} bytes raised bytes in flight from {} to {} past the window of {} under the loss-probe exemption, but the pending probes stayed at {:?}", tx.inc, tx.size, b.in_flight_bytes, a.in_flight_bytes, b.window, a.loss_probes)));
                    break;
                }
                continue;
            }
            self.gated_sends_checked += 1;
            // the window is read before the call: it cannot change inside poll_transmit
            if a.in_flight_bytes >= b.window && a.in_flight_bytes > b.in_flight_bytes {
                let kind = if only_coalesced_eliciting { "coalesced-packet-bypasses-congestion-window" } else { "sent-beyond-congestion-window" };
                problem = Some((kind.to_string(), format!("inc{}: a poll_transmit of {} bytes (no loss probe pending, no MTU probe, no path validation, not closing) raised bytes in flight from {} to {} although the congestion window is {}", tx.inc, tx.size, b.in_flight_bytes, a.in_flight_bytes, b.window)));
                break;
            }
        }
        self.tx_seen = n;
        if let Some((k, d)) = problem {
            w.violate(k, d);
        }
    }
}

fn run(ch: Chooser, ctx: &RunCtx, mut opts: BasicOpts, clean_path: bool) -> RunOut {
    let mut w = World::from_ctx(ch, ctx);
    w.drv.track_probe = true;
    opts.allow_corrupt = false;
    if clean_path {
        opts.fault_phase_max_ms = 0;
        opts.op_kinds = vec![0, 1, 2, 3, 4];
        opts.retry = 300;
    } else {
        if opts.op_kinds == vec![0, 1, 2, 3, 4] {
            opts.op_kinds = vec![0, 1, 2, 3, 4, 5, 7, 9];
        }
    }
    let mut sc = Basic::build(&mut w, opts);
    sc.oracles.push(Box::new(CcOracle::default()));
    w.run(&mut sc);
    super::c01::end_checks(&mut w, &sc, false);
    if w.violations.is_empty() && clean_path {
        // on a loss-free, in-order, constant-delay path nothing is ever declared lost
        for c in &w.conns {
            let st = c.conn.stats();
            // packets the path delivered and the peer threw away are lost all the same, and rightly
            // declared so: 1-RTT packets that reach a peer still busy with the handshake (a
            // congestion-blocked client sends its first MTU probe, which the window does not
            // hold back, ahead of its own Finished) are authenticated and dropped unprocessed
            let discarded_by_peer = if c.peer != NO_INC && (c.peer as usize) < w.conns.len() {
                let peer = &w.conns[c.peer as usize];
                let t = w.tap.lock().unwrap();
                t.pkts.iter().filter(|p| !p.enc && p.ok && p.inc == peer.inc && p.space == Space::OneRtt && peer.connected_at.is_none_or(|at| p.t < at)).count() as u64
            } else {
                0
            };
            if discarded_by_peer > 0 && st.path.lost_packets <= discarded_by_peer {
                w.probes.hit("loss_of_packets_the_peer_discarded_while_handshaking");
                continue;
            }
            if st.path.lost_packets > 0 || st.path.congestion_events > 0 {
                let (k, d) = ("spurious-loss-on-clean-path".to_string(), format!("inc{}: lost_packets={} congestion_events={} on a path without loss, reordering or jitter (rtt {:?})", c.inc, st.path.lost_packets, st.path.congestion_events, st.path.rtt));
                w.violate(k, d);
                break;
            }
        }
    }
    if w.violations.is_empty() && sc.completed_at.is_some() {
        // everything finished and acknowledged: allow the last ACKs to settle, then nothing may
        // remain in flight on connections that have nothing tracked
        for c in &w.conns {
            let p = c.conn.verif_probe();
            if p.tracked_packets == 0 && p.in_flight_bytes != 0 {
                let (k, d) = ("in-flight-not-zero-when-all-acked".to_string(), format!("inc{}: {} bytes in flight with no tracked packet", c.inc, p.in_flight_bytes));
                w.violate(k, d);
                break;
            }
        }
    }
    let mut o = RunOut::from_world(&mut w);
    o.config = format!("clean_path={} server={:?} client={:?} net={:?} ops={:?}", clean_path, sc.server_knobs, sc.client_knobs, w.net, sc.ops);
    o
}

fn fam_faults(ch: Chooser, ctx: &RunCtx) -> RunOut {
    run(ch, ctx, BasicOpts { size_max: 150_000, streams_max: 4, harness_cc_rate: 300, pad_rate: 100, ..Default::default() }, false)
}
/// path validation under loss: probe timeouts fire while the PATH_CHALLENGE is outstanding
fn fam_migration(ch: Chooser, ctx: &RunCtx) -> RunOut {
    run(ch, ctx, BasicOpts { size_max: 200_000, streams_max: 4, harness_cc_rate: 500, max_drop: 400, op_kinds: vec![7, 7, 6, 1], ops_max: 5, retry: 0, cid_len_choices: vec![8, 8, 4, 20], ..Default::default() }, false)
}
fn fam_clean(ch: Chooser, ctx: &RunCtx) -> RunOut {
    run(ch, ctx, BasicOpts { size_max: 300_000, streams_max: 4, harness_cc_rate: 200, pad_rate: 100, ..Default::default() }, true)
}
fn fam_bigcert(ch: Chooser, ctx: &RunCtx) -> RunOut {
    run(ch, ctx, BasicOpts { size_max: 50_000, big_cert: true, retry: 500, directed_k: 12, directed_max: 3, harness_cc_rate: 200, ..Default::default() }, false)
}

/// 0-RTT: packets abandoned by a rejection or a Retry must leave the in-flight ledger
fn fam_zero_rtt(ch: Chooser, ctx: &RunCtx) -> RunOut {
    let o = super::c17::C17Opts { basic: BasicOpts { op_kinds: vec![1], ops_max: 1, retry: 200, size_max: 60_000, streams_max: 4, harness_cc_rate: 200, ..Default::default() }, accept_weight: 40 };
    let (mut w, sc) = super::c17::run_scen(ch, ctx, o, vec![Box::new(CcOracle::default())], true);
    super::c17::end_checks(&mut w, &sc);
    if w.violations.is_empty() && sc.b.completed_at.is_some() {
        for c in &w.conns {
            let p = c.conn.verif_probe();
            if p.tracked_packets == 0 && p.in_flight_bytes != 0 {
                let (k, d) = ("in-flight-not-zero-when-all-acked".to_string(), format!("inc{}: {} bytes in flight with no tracked packet", c.inc, p.in_flight_bytes));
                w.violate(k, d);
                break;
            }
        }
    }
    let mut out = RunOut::from_world(&mut w);
    out.config = format!("zero-rtt mode={:?} retry2={} late_accept={:?} server={:?} client={:?} net={:?}", sc.mode, sc.retry2, sc.late_accept, sc.b.server_knobs, sc.b.client_knobs, w.net);
    out
}

/// The built-in controllers alone: seeded call histories, window() never below two datagrams.
fn fam_controllers(mut ch: Chooser, _ctx: &RunCtx) -> RunOut {
    let base = Instant::now();
    let which = ch.choose("cc.which", 3);
    // (start at an MTU for which the configured initial window is already two datagrams: the
    // statement is about what events can do to the window, not about the initial configuration)
    let mut mtu: u16 = *ch.pick("cc.mtu0", &[1200u16, 1200, 1452, 1500, 4000]);
    let mut ctl: Box<dyn quinn_proto::congestion::Controller> = match which {
        0 => std::sync::Arc::new(CubicConfig::default()).build(base, mtu),
        1 => std::sync::Arc::new(NewRenoConfig::default()).build(base, mtu),
        _ => std::sync::Arc::new(BbrConfig::default()).build(base, mtu),
    };
    let names = ["Cubic", "NewReno", "Bbr"];
    let mut now_ns: u64 = 0;
    let mut violations = Vec::new();
    let mut pn = 0u64;
    let mut in_flight: u64 = 0;
    let n = ch.range("cc.calls", 10, 400);
    let rtt = quinn_proto::verif_rtt_estimator(Duration::from_millis(*ch.pick("cc.rtt", &[100u64, 1, 10, 333, 2000])));
    let mut history = Vec::new();
    for i in 0..n {
        // timestamps non-decreasing, occasionally equal
        if !ch.chance("cc.same_t", 1, 4) {
            now_ns += ch.range_log("cc.dt_us", 0, 5_000_000) * 1000;
        }
        let now = base + Duration::from_nanos(now_ns);
        let sent = base + Duration::from_nanos(now_ns.saturating_sub(ch.range_log("cc.age_us", 0, 3_000_000) * 1000));
        let call = ch.weighted("cc.call", &[4, 4, 2, 2, 1, 1]);
        match call {
            0 => {
                let bytes = ch.range_log("cc.sent", 0, 1 << 20);
                ctl.on_sent(now, bytes, pn);
                pn += 1;
                in_flight = in_flight.saturating_add(bytes);
                history.push(format!("on_sent({}B)", bytes));
            }
            1 => {
                let bytes = ch.range_log("cc.acked", 0, 1 << 20);
                let app_limited = ch.chance("cc.app_limited", 1, 3);
                ctl.on_ack(now, sent, bytes, app_limited, &rtt);
                in_flight = in_flight.saturating_sub(bytes);
                history.push(format!("on_ack({}B, app_limited={})", bytes, app_limited));
            }
            2 => {
                let app_limited = ch.chance("cc.app_limited2", 1, 3);
                ctl.on_end_acks(now, in_flight, app_limited, Some(pn.saturating_sub(1)));
                history.push(format!("on_end_acks(in_flight={})", in_flight));
            }
            3 => {
                let persistent = ch.chance("cc.persistent", 1, 4);
                let ecn = ch.chance("cc.ecn", 1, 4);
                let lost = ch.range_log("cc.lost", 0, 1 << 20);
                ctl.on_congestion_event(now, sent, persistent, ecn, lost);
                in_flight = in_flight.saturating_sub(lost);
                history.push(format!("on_congestion_event(persistent={}, ecn={}, lost={}B)", persistent, ecn, lost));
            }
            4 => {
                mtu = *ch.pick("cc.mtu", &[1200u16, 1201, 1280, 1452, 1500, 5100, 9000, 65_527]);
                ctl.on_mtu_update(mtu);
                history.push(format!("on_mtu_update({})", mtu));
            }
            _ => {
                ctl.on_spurious_congestion_event();
                history.push("on_spurious_congestion_event()".to_string());
            }
        }
        let win = ctl.window();
        if win < 2 * mtu as u64 {
            let tail: Vec<&String> = history.iter().rev().take(12).collect::<Vec<_>>().into_iter().rev().collect();
            violations.push(crate::world::Violation { kind: format!("window-below-two-datagrams/{}", names[which as usize]), detail: format!("after call {} ({}) window()={} with current MTU {} (needs >= {}); last calls: {:?}", i, history.last().unwrap(), win, mtu, 2 * mtu as u64, tail), t: now_ns, step: i });
            break;
        }
    }
    RunOut {
        violations,
        faults: Default::default(),
        probes: Default::default(),
        sig: crate::util::fnv(history.join(",").as_bytes()),
        nontrivial: true,
        steps: n,
        sim_ns: now_ns,
        hit_limit: None,
        panic: None,
        choices: ch.values(),
        log: history,
        trace: Vec::new(),
        stats: Default::default(),
        config: format!("controller={}", names[which as usize]),
    }
}

pub fn spec() -> PropSpec {
    PropSpec {
        id: "C12",
        families: vec![
            Family { name: "faults", f: fam_faults, weight: 20 },
            Family { name: "migration-loss", f: fam_migration, weight: 10 },
            Family { name: "clean-path", f: fam_clean, weight: 20 },
            Family { name: "handshake-abandon", f: fam_bigcert, weight: 15 },
            Family { name: "zero-rtt", f: fam_zero_rtt, weight: 15 },
            Family { name: "controller-histories", f: fam_controllers, weight: 20 },
        ],
        quick_worlds: 200_000,
        thorough_worlds: 2_400_000,
        panic_is_violation: true,
        rule: "worlds: bulk/mixed workloads with the three built-in controllers and a harness controller dictating window() (fixed small/large, oscillating between acknowledgement batches), under loss/reorder/dup/ECN-CE/MTU changes/rebinding, Retry, directed handshake loss; or loss-free constant-delay paths; or seeded call histories on the controllers alone. non-trivial = a fault fired, >1 connection, or a controller history; distinct = distinct abstract-event signature / call history",
        assumptions: vec!["bytes in flight and the tracked-packet sum are read through the read-only probe after every simulation step", "window rule: for a poll_transmit that emitted ack-eliciting, non-exempt packets (no loss probe pending before the call, no MTU probe, not consisting of PATH_CHALLENGE/RESPONSE only, no close); a transmit exempted by a pending loss probe must consume one bytes in flight afterwards are below the window read before the call"],
        real: super::REAL.to_vec(),
        stub: super::STUB.to_vec(),
    }
}
