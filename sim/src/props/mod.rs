//! Property checks: scenario families + oracles per property.

use crate::runner::PropSpec;

pub mod c01;
pub mod c02;
pub mod c03;
pub mod c04;
pub mod c05;
pub mod c06;
pub mod c07;
pub mod c08;
pub mod c09;
pub mod c11;
pub mod c12;
pub mod c13;
pub mod c14;
pub mod c15;
pub mod c16;
pub mod c17;
pub mod c18;
pub mod c20;
pub mod selftest;

pub const REAL: &[&str] = &[
    "quinn-proto Endpoint/Connection (streams, recovery, congestion, MTUD, CIDs, tokens, transport parameters, packet/frame codecs): real code from /repo, unmodified",
    "rustls + ring TLS 1.3 handshake and QUIC packet/header protection: real code, wrapped by a pass-through recording tap",
];
pub const STUB: &[&str] = &[
    "network (latency, loss, duplication, reordering, corruption, MTU, partitions, rebinding): simulated",
    "clock and timers: virtual (discrete-event)",
    "applications: seeded event-driven models",
    "quinn-udp / kernel sockets: not exercised",
];

pub fn all() -> Vec<PropSpec> {
    vec![c01::spec(), c02::spec(), c03::spec(), c04::spec(), c05::spec(), c06::spec(), c07::spec(), c08::spec(), c09::spec(), c11::spec(), c12::spec(), c13::spec(), c14::spec(), c15::spec(), c16::spec(), c17::spec(), c18::spec(), c20::spec()]
}
