//! C20 — the protocol core is deterministic and driven only by its inputs.
//!
//! Every sampled world of the other protosim families is executed as a group on one choice
//! list: (a) plain, (b) replay, (c) every instant shifted by a constant, (d) with extra
//! handle_timeout / poll_transmit / poll calls at instants where the connection is driven
//! anyway. The full output traces must be identical. Also: timeout servicing converges,
//! drained connections stay silent, and a second OS process reproduces the same digests.

use crate::chooser::Chooser;
use crate::runner::{run_family, Family, FamilyFn, PropSpec, RunCtx, RunOut};

fn first_diff(a: &[u64], b: &[u64]) -> usize {
    a.iter().zip(b.iter()).position(|(x, y)| x != y).unwrap_or(a.len().min(b.len()))
}

fn group(inner: FamilyFn, ch: Chooser, ctx: &RunCtx) -> RunOut {
    let mut base = run_family(inner, ch, ctx);
    if base.panic.is_some() {
        // a panic is C03's business; nothing to compare
        return base;
    }
    // violations of other properties' oracles inside the inner family are not C20's to report
    base.violations.clear();
    let shifts = [1u64, 1_000_000_000, 49 * 86_400 * 1_000_000_000 + 17 * 3_600_000_000_000 + 123];
    let shift = shifts[(base.choices.len() + base.steps as usize) % shifts.len()];
    let variants: [(&str, RunCtx); 3] = [
        ("replay", RunCtx { ..Default::default() }),
        ("time-shift", RunCtx { base_shift_ns: shift, ..Default::default() }),
        ("spurious-calls", RunCtx { spurious: true, ..Default::default() }),
    ];
    for (name, vctx) in variants.iter() {
        let o = run_family(inner, Chooser::replay(base.choices.clone()), vctx);
        if let Some(p) = &o.panic {
            base.violations.push(crate::world::Violation { kind: format!("{}-run-panicked", name), detail: p.clone(), t: 0, step: 0 });
            return base;
        }
        if let Some(v) = o.violations.iter().find(|v| v.kind == "spurious-poll-transmit-produced-output" || v.kind == "timeout-does-not-converge" || v.kind == "drained-connection-produced-output") {
            base.violations.push(v.clone());
            return base;
        }
        if o.trace != base.trace || o.steps != base.steps || o.sim_ns != base.sim_ns {
            let i = first_diff(&o.trace, &base.trace);
            // re-run both with text traces to show the first differing item
            let a = run_family(inner, Chooser::replay(base.choices.clone()), &RunCtx { keep_trace_text: true, ..Default::default() });
            let b = run_family(inner, Chooser::replay(base.choices.clone()), &RunCtx { keep_trace_text: true, ..vctx.clone() });
            let ta = a.log.get(i).cloned().unwrap_or_else(|| "<end of trace>".into());
            let tb = b.log.get(i).cloned().unwrap_or_else(|| "<end of trace>".into());
            base.violations.push(crate::world::Violation {
                kind: format!("trace-differs/{}", name),
                detail: format!("output traces diverge at item {} (of {} vs {}): plain run: [{}]  {} run: [{}] (end time {} vs {})", i, base.trace.len(), o.trace.len(), ta, name, tb, base.sim_ns, o.sim_ns),
                t: 0,
                step: 0,
            });
            return base;
        }
    }
    if let Some(v) = base.violations.first() {
        let _ = v;
    }
    base
}

fn with_checks(mut o: RunOut) -> RunOut {
    o.violations.retain(|v| v.kind == "timeout-does-not-converge" || v.kind == "drained-connection-produced-output" || v.kind == "spurious-poll-transmit-produced-output");
    o
}

fn inner_c01_pair(ch: Chooser, ctx: &RunCtx) -> RunOut {
    with_checks((super::c01::spec().families[0].f)(ch, ctx))
}
fn inner_c01_multi(ch: Chooser, ctx: &RunCtx) -> RunOut {
    with_checks((super::c01::spec().families[2].f)(ch, ctx))
}
fn inner_c02_fair(ch: Chooser, ctx: &RunCtx) -> RunOut {
    with_checks((super::c02::spec().families[0].f)(ch, ctx))
}
fn inner_c02_cc(ch: Chooser, ctx: &RunCtx) -> RunOut {
    with_checks((super::c02::spec().families[2].f)(ch, ctx))
}

fn fam_pair(ch: Chooser, ctx: &RunCtx) -> RunOut {
    group(inner_c01_pair, ch, ctx)
}
fn fam_multi(ch: Chooser, ctx: &RunCtx) -> RunOut {
    group(inner_c01_multi, ch, ctx)
}
fn fam_fair(ch: Chooser, ctx: &RunCtx) -> RunOut {
    group(inner_c02_fair, ch, ctx)
}
fn fam_cc(ch: Chooser, ctx: &RunCtx) -> RunOut {
    group(inner_c02_cc, ch, ctx)
}

pub fn spec() -> PropSpec {
    PropSpec {
        id: "C20",
        families: vec![
            Family { name: "group-c01-pair", f: fam_pair, weight: 40 },
            Family { name: "group-c01-multi", f: fam_multi, weight: 20 },
            Family { name: "group-c02-fair", f: fam_fair, weight: 25 },
            Family { name: "group-c02-cc", f: fam_cc, weight: 15 },
        ],
        quick_worlds: 20_000,
        thorough_worlds: 400_000,
        panic_is_violation: false,
        rule: "each evaluation = a group of 4 executions of one choice list (plain, replay, all instants shifted by 1 ns / 1 s / 49.7 days, extra harmless calls) whose full output traces (every Transmit (t, size, segment size, destination, ECN), every Event and EndpointEvent, every application-call result) must be identical; non-trivial = a fault fired or >1 connection; distinct = distinct abstract-event signature of the plain run",
        assumptions: vec!["ciphertext bytes are excluded from traces (rustls/ring draw their own randomness); sizes, times, plaintext-derived events are included", "a second OS process (different ASLR / RandomState keys) is compared through the digests printed by `vsim selftest` (bin/selftest-xproc)"],
        real: super::REAL.to_vec(),
        stub: super::STUB.to_vec(),
    }
}
