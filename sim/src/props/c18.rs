//! C18 — async API: no lost wakeups, cancellation-safe, clean teardown.
//!
//! The real `quinn` crate (endpoint driver, connection drivers, stream / datagram futures) runs
//! on asyncsim: a seeded single-threaded executor, a virtual clock and an in-memory UDP network
//! with loss, duplication, reordering and "socket not writable" faults (`asim.rs`).
//!
//! Application tasks: clients connect, open uni / bidi streams from concurrent tasks, write with
//! `write` futures that are dropped after a drawn number of polls and retried, finish (or just drop
//! the stream), wait for `stopped()` or read the response; servers accept connections and streams
//! from concurrent tasks and read with `read_chunk` / `read` futures that are dropped and retried;
//! datagrams flow both ways; further tasks park in `closed()`, `accept_uni()`, `read_datagram()`
//! until the connection ends. Connections end by `close()` or by dropping every handle; endpoints
//! by `wait_idle()` + drop.
//!
//! Oracle at quiescence (no runnable task, no timer, no datagram in flight):
//!   * every application task has finished — a task still pending then is a lost wakeup (its
//!     current operation is reported);
//!   * every task quinn spawned (drivers) has terminated and `open_connections()` was 0;
//!   * every stream arrived byte-identical and complete exactly once (keyed pattern), also when
//!     the writer only dropped its handle; every datagram received is one that was sent, at most
//!     once.

use std::collections::BTreeMap;
use std::net::SocketAddr;
use std::sync::{Arc, Mutex};

use bytes::Bytes;
use quinn::{Connection, Endpoint, RecvStream, SendStream, VarInt};

use crate::asim::{poll_n, sleep, Ns, Sim, SimRuntime, YieldNow, MS};
use crate::cfgs::{self, EpOpts, TKnobs};
use crate::chooser::{mix, Chooser};
use crate::runner::{Family, PropSpec, RunCtx, RunOut};
use crate::util::{fnv, pat_check, pat_fill};

const KEY: u64 = 0xA51C_0018;

#[derive(Clone, Debug)]
struct StreamPlan {
    bi: bool,
    size: usize,
    chunk: usize,
    /// drop pending write futures after this many polls (0 = never cancel)
    cancel_w: u32,
    /// the writer drops the stream instead of calling finish()
    drop_unfinished: bool,
    resp: usize,
    /// the reading application stops the stream once it has read this much (the writer, quite
    /// possibly blocked on flow control at that moment, must be told)
    stop_after: Option<usize>,
    /// the writer resets the stream (with this code) once it has written this much
    reset_after: Option<(usize, u32)>,
}

#[derive(Clone, Debug)]
struct ConnPlan {
    streams: Vec<StreamPlan>,
    dgrams: u32,
    explicit_close: bool,
    parked: bool,
    /// the client endpoint moves to another socket this long after connecting (0: port only,
    /// 1: another address)
    rebind: Option<(Ns, u32)>,
    /// what the server application does with this client's connection attempts: 0 accept,
    /// 1 `Incoming::refuse`, 2 drop the `Incoming` (documented to refuse), 3 `Incoming::ignore`
    gate: u8,
    /// the client application loses interest: the `Connecting` future is dropped after this many
    /// polls unless the handshake has completed by then
    abandon_connect: Option<u32>,
}

#[derive(Default)]
struct Results {
    /// (conn, stream id) -> bytes the client handed to write() / whether it ended the stream
    written: BTreeMap<(u32, u64), (usize, bool)>,
    /// (conn, stream id) -> bytes the server read to the end of the stream
    read: BTreeMap<(u32, u64), usize>,
    resp_read: BTreeMap<(u32, u64), usize>,
    dgram_sent: BTreeMap<u64, u32>,
    dgram_recv: BTreeMap<u64, u32>,
    labels: Vec<(String, Arc<Mutex<String>>)>,
    server_conns_done: u32,
    /// the server endpoint was closed in the middle of the workload
    server_gone: bool,
    open_conns_at_end: Vec<usize>,
    /// clients whose main task has run to its end
    clients_done: u32,
    cancels: u64,
    /// connections whose client has begun to end them (errors are expected from then on)
    closing: std::collections::BTreeSet<u32>,
    /// when the server application had read a stream to its end / when the client's stopped() returned
    t_read: BTreeMap<(u32, u64), Ns>,
    t_stopped: BTreeMap<(u32, u64), Ns>,
    /// errors seen by stream / datagram operations while the connection was meant to be alive
    unexpected: Vec<(u32, String)>,
    /// the network dropped datagrams at some point of this world
    lossy: bool,
    /// connections that died of an idle timeout on a lossy network: after a lossy handshake the
    /// probe-timeout backoff (which a client keeps until the handshake is confirmed) can exceed
    /// the idle timeout, and the first loss afterwards then legitimately ends the connection
    lost: std::collections::BTreeSet<u32>,
    /// (conn, stream) -> the reader is to stop the stream after this many bytes
    stop_plan: BTreeMap<(u32, u64), usize>,
    /// (conn, stream) -> code the writer resets the stream with
    reset_plan: BTreeMap<(u32, u64), u32>,
    /// (conn, stream) -> the reader saw the reset
    reset_seen: std::collections::BTreeSet<(u32, u64)>,
    /// clients whose server connection has completed its handshake (from then on the server
    /// accepts a migration)
    server_ready: std::collections::BTreeSet<u32>,
    client_confirmed: std::collections::BTreeSet<u32>,
    /// no fault of any kind is injected into the network of this world
    fault_free: bool,
    /// 0-RTT family: the server refuses early data on the second connection
    zr_reject: bool,
    /// operations that failed with a ZeroRttRejected error
    zr_errors: u32,
    /// stream tasks started on a connection obtained from into_0rtt() before the handshake
    zr_early_streams: u32,
    /// when handshake_confirmed() returned on the second connection / when its early streams
    /// had all ended
    zr_t_confirmed: Option<Ns>,
    zr_t_early_done: Option<Ns>,
}

type Res = Arc<Mutex<Results>>;

#[derive(Clone)]
struct Lbl(Arc<Mutex<String>>);
impl Lbl {
    fn set(&self, s: &str) {
        let mut g = self.0.lock().unwrap();
        g.clear();
        g.push_str(s);
    }
}

fn spawn(sim: &Sim, res: &Res, name: String, f: impl FnOnce(Lbl) -> std::pin::Pin<Box<dyn std::future::Future<Output = ()> + Send>>) {
    let l = Lbl(Arc::new(Mutex::new(String::from("start"))));
    res.lock().unwrap().labels.push((name.clone(), l.0.clone()));
    sim.spawn_app(&name, f(l));
}

fn op_failed(res: &Res, ci: u32, what: &str, e: &dyn std::fmt::Display) {
    let mut r = res.lock().unwrap();
    if format!("{}", e).contains("0-RTT rejected") {
        r.zr_errors += 1;
        if r.zr_reject {
            return;
        }
    }
    if !r.closing.contains(&ci) {
        r.unexpected.push((ci, format!("{}: {}", what, e)));
    }
}

fn skey(conn: u32, sid: u64, resp: bool) -> u64 {
    mix(&[KEY, conn as u64, sid, resp as u64])
}

/// draw through the sim's chooser from inside a task
fn draw(sim: &Sim, site: &'static str, n: u32) -> u32 {
    sim.with(|s| s.ch.choose(site, n))
}

async fn read_all(sim: &Sim, res: &Res, lbl: &Lbl, ci: u32, recv: &mut RecvStream, key: u64, what: &str) -> Option<usize> {
    let mut pos = 0usize;
    let stop_at = res.lock().unwrap().stop_plan.get(&(ci, VarInt::from(recv.id()).into_inner())).copied().filter(|_| !what.contains("response"));
    let mut just_cancelled = false;
    loop {
        if stop_at.is_some_and(|k| pos >= k) {
            let _ = recv.stop(VarInt::from_u32(33));
            sim.with(|s| s.probes.hit("reader_stopped_stream"));
            return None;
        }
        lbl.set(&format!("{} read at {}", what, pos));
        // read_chunk and read are documented as cancel-safe: drop the pending future and retry
        // (never twice in a row, so that the task cannot spin)
        let cancel = if just_cancelled { 0 } else { draw(sim, "c18.cancel_r", 4) };
        just_cancelled = false;
        let kind = draw(sim, "c18.read_kind", 3);
        if kind == 2 {
            // read_chunks: several ordered chunks at once (cancel-safe as well)
            let mut bufs: [bytes::Bytes; 3] = Default::default();
            let r = if cancel == 0 { Some(recv.read_chunks(&mut bufs).await) } else { poll_n(recv.read_chunks(&mut bufs), cancel).await };
            match r {
                None => {
                    res.lock().unwrap().cancels += 1;
                    just_cancelled = true;
                    YieldNow(false).await;
                    continue;
                }
                Some(Ok(Some(n))) => {
                    sim.with(|s| s.probes.hit("read_chunks_returned"));
                    for b in &bufs[..n] {
                        if let Some(i) = pat_check(key, pos as u64, b) {
                            sim.violate("async-data-mismatch", format!("{}: byte at offset {} (read_chunks) differs from what was written", what, pos + i));
                            return None;
                        }
                        pos += b.len();
                    }
                }
                Some(Ok(None)) => return Some(pos),
                Some(Err(quinn::ReadError::Reset(code))) if res.lock().unwrap().reset_plan.contains_key(&(ci, VarInt::from(recv.id()).into_inner())) => {
                    let sid = VarInt::from(recv.id()).into_inner();
                    let want = res.lock().unwrap().reset_plan[&(ci, sid)];
                    if code != VarInt::from_u32(want) {
                        sim.violate("async-reset-code-mismatch", format!("{}: read_chunks reported Reset({}) but the writer reset the stream with {}", what, code, want));
                    }
                    res.lock().unwrap().reset_seen.insert((ci, sid));
                    sim.with(|s| s.probes.hit("reader_saw_reset"));
                    return None;
                }
                Some(Err(e)) => {
                    sim.log(|| format!("{} read error {}", what, e));
                    op_failed(res, ci, what, &e);
                    return None;
                }
            }
            continue;
        }
        let use_chunk = kind == 0;
        if use_chunk {
            let r = if cancel == 0 { Some(recv.read_chunk(*[usize::MAX, 1, 100, 1200].get(draw(sim, "c18.maxlen", 4) as usize).unwrap(), true).await) } else { poll_n(recv.read_chunk(usize::MAX, true), cancel).await };
            match r {
                None => {
                    res.lock().unwrap().cancels += 1;
                    just_cancelled = true;
                    YieldNow(false).await;
                    continue;
                }
                Some(Ok(Some(c))) => {
                    if c.offset as usize != pos {
                        sim.violate("async-read-gap", format!("{}: read_chunk returned offset {} after {} bytes", what, c.offset, pos));
                        return None;
                    }
                    if let Some(i) = pat_check(key, pos as u64, &c.bytes) {
                        sim.violate("async-data-mismatch", format!("{}: byte at offset {} differs from what was written", what, pos + i));
                        return None;
                    }
                    pos += c.bytes.len();
                }
                Some(Ok(None)) => return Some(pos),
                Some(Err(quinn::ReadError::Reset(code))) if res.lock().unwrap().reset_plan.contains_key(&(ci, VarInt::from(recv.id()).into_inner())) => {
                    let sid = VarInt::from(recv.id()).into_inner();
                    let want = res.lock().unwrap().reset_plan[&(ci, sid)];
                    if code != VarInt::from_u32(want) {
                        sim.violate("async-reset-code-mismatch", format!("{}: read reported Reset({}) but the writer reset the stream with {}", what, code, want));
                    }
                    res.lock().unwrap().reset_seen.insert((ci, sid));
                    sim.with(|s| s.probes.hit("reader_saw_reset"));
                    return None;
                }
                Some(Err(e)) => {
                    sim.log(|| format!("{} read error {}", what, e));
                    op_failed(res, ci, what, &e);
                    return None;
                }
            }
        } else {
            let mut buf = vec![0u8; [4096usize, 1, 333, 1500][draw(sim, "c18.buflen", 4) as usize]];
            let r = if cancel == 0 { Some(recv.read(&mut buf).await) } else { poll_n(recv.read(&mut buf), cancel).await };
            match r {
                None => {
                    res.lock().unwrap().cancels += 1;
                    just_cancelled = true;
                    YieldNow(false).await;
                    continue;
                }
                Some(Ok(Some(n))) => {
                    if let Some(i) = pat_check(key, pos as u64, &buf[..n]) {
                        sim.violate("async-data-mismatch", format!("{}: byte at offset {} differs from what was written", what, pos + i));
                        return None;
                    }
                    pos += n;
                }
                Some(Ok(None)) => return Some(pos),
                Some(Err(quinn::ReadError::Reset(code))) if res.lock().unwrap().reset_plan.contains_key(&(ci, VarInt::from(recv.id()).into_inner())) => {
                    let sid = VarInt::from(recv.id()).into_inner();
                    let want = res.lock().unwrap().reset_plan[&(ci, sid)];
                    if code != VarInt::from_u32(want) {
                        sim.violate("async-reset-code-mismatch", format!("{}: read reported Reset({}) but the writer reset the stream with {}", what, code, want));
                    }
                    res.lock().unwrap().reset_seen.insert((ci, sid));
                    sim.with(|s| s.probes.hit("reader_saw_reset"));
                    return None;
                }
                Some(Err(e)) => {
                    sim.log(|| format!("{} read error {}", what, e));
                    op_failed(res, ci, what, &e);
                    return None;
                }
            }
        }
    }
}

async fn write_all(sim: &Sim, res: &Res, lbl: &Lbl, ci: u32, send: &mut SendStream, key: u64, size: usize, chunk: usize, cancel_w: u32, what: &str) -> usize {
    let mut pos = 0usize;
    let mut just_cancelled = false;
    while pos < size {
        let n = chunk.min(size - pos);
        let mut buf = vec![0u8; n];
        pat_fill(key, pos as u64, &mut buf);
        lbl.set(&format!("{} write at {}", what, pos));
        if draw(sim, "c18.write_kind", 3) == 2 {
            // write_chunks: up to three chunks, partially accepted (cancel-safe as well)
            let third = (n / 3).max(1);
            let mut bufs: Vec<bytes::Bytes> = buf.chunks(third).map(bytes::Bytes::copy_from_slice).collect();
            let r = if cancel_w == 0 || just_cancelled { Some(send.write_chunks(&mut bufs).await) } else { poll_n(send.write_chunks(&mut bufs), 1 + draw(sim, "c18.cancel_wc", cancel_w)).await };
            just_cancelled = false;
            match r {
                None => {
                    res.lock().unwrap().cancels += 1;
                    just_cancelled = true;
                    YieldNow(false).await;
                }
                Some(Ok(wr)) => {
                    sim.with(|s| s.probes.hit("write_chunks_returned"));
                    // what is left in `bufs` must be exactly the unwritten tail
                    let left: usize = bufs.iter().map(|b| b.len()).sum();
                    if wr.bytes + left != n {
                        sim.violate("async-write-chunks-accounting", format!("{}: write_chunks reported {} bytes written of {} but left {} bytes in the buffers", what, wr.bytes, n, left));
                        break;
                    }
                    pos += wr.bytes;
                }
                Some(Err(quinn::WriteError::Stopped(_))) if res.lock().unwrap().stop_plan.contains_key(&(ci, VarInt::from(send.id()).into_inner())) => {
                    sim.with(|s| s.probes.hit("writer_told_of_stop"));
                    break;
                }
                Some(Err(e)) => {
                    sim.log(|| format!("{} write error {}", what, e));
                    op_failed(res, ci, what, &e);
                    break;
                }
            }
            continue;
        }
        let r = if cancel_w == 0 || just_cancelled { Some(send.write(&buf).await) } else { poll_n(send.write(&buf), 1 + draw(sim, "c18.cancel_w", cancel_w)).await };
        just_cancelled = false;
        match r {
            None => {
                res.lock().unwrap().cancels += 1;
                just_cancelled = true;
                YieldNow(false).await;
            }
            Some(Ok(k)) => pos += k,
            Some(Err(quinn::WriteError::Stopped(_))) if res.lock().unwrap().stop_plan.contains_key(&(ci, VarInt::from(send.id()).into_inner())) => {
                sim.with(|s| s.probes.hit("writer_told_of_stop"));
                break;
            }
            Some(Err(e)) => {
                sim.log(|| format!("{} write error {}", what, e));
                op_failed(res, ci, what, &e);
                break;
            }
        }
    }
    pos
}

async fn client_stream(sim: Sim, res: Res, lbl: Lbl, conn: Connection, ci: u32, p: StreamPlan, si: usize) {
    let what = format!("c{}#{}", ci, si);
    lbl.set(&format!("{} open", what));
    if p.bi {
        // opening is cancel-safe too
        let mut tries = 0;
        let (mut send, mut recv) = loop {
            tries += 1;
            let r = if tries % 2 == 0 { Some(conn.open_bi().await) } else { poll_n(conn.open_bi(), 1 + draw(&sim, "c18.cancel_open", 3)).await };
            match r {
                None => {
                    res.lock().unwrap().cancels += 1;
                    YieldNow(false).await;
                }
                Some(Ok(x)) => break x,
                Some(Err(_)) => return,
            }
        };
        let sid = VarInt::from(send.id()).into_inner();
        if let Some(k) = p.stop_after {
            res.lock().unwrap().stop_plan.insert((ci, sid), k);
        }
        if let Some((_, code)) = p.reset_after {
            res.lock().unwrap().reset_plan.insert((ci, sid), code);
        }
        let limit = p.reset_after.map_or(p.size, |(k, _)| k.min(p.size));
        let n = write_all(&sim, &res, &lbl, ci, &mut send, skey(ci, sid, false), limit, p.chunk, p.cancel_w, &what).await;
        let complete = n == p.size && p.stop_after.is_none() && p.reset_after.is_none();
        res.lock().unwrap().written.insert((ci, sid), (n, complete));
        if let Some((_, code)) = p.reset_after {
            let _ = send.reset(VarInt::from_u32(code));
            sim.with(|s| s.probes.hit("writer_reset_stream"));
        } else if p.drop_unfinished {
            drop(send);
        } else {
            let _ = send.finish();
        }
        if complete {
            if let Some(k) = read_all(&sim, &res, &lbl, ci, &mut recv, skey(ci, sid, true), &format!("{} response", what)).await {
                res.lock().unwrap().resp_read.insert((ci, sid), k);
            }
        }
    } else {
        let mut send = match conn.open_uni().await {
            Ok(s) => s,
            Err(_) => return,
        };
        let sid = VarInt::from(send.id()).into_inner();
        if let Some(k) = p.stop_after {
            res.lock().unwrap().stop_plan.insert((ci, sid), k);
        }
        if let Some((_, code)) = p.reset_after {
            res.lock().unwrap().reset_plan.insert((ci, sid), code);
        }
        let limit = p.reset_after.map_or(p.size, |(k, _)| k.min(p.size));
        let n = write_all(&sim, &res, &lbl, ci, &mut send, skey(ci, sid, false), limit, p.chunk, p.cancel_w, &what).await;
        res.lock().unwrap().written.insert((ci, sid), (n, n == p.size && p.stop_after.is_none() && p.reset_after.is_none()));
        if let Some((_, code)) = p.reset_after {
            let _ = send.reset(VarInt::from_u32(code));
            sim.with(|s| s.probes.hit("writer_reset_stream"));
        } else if p.drop_unfinished {
            drop(send);
        } else {
            let _ = send.finish();
            lbl.set(&format!("{} stopped()", what));
            if let Err(e) = send.stopped().await {
                op_failed(&res, ci, &format!("{} stopped()", what), &e);
            }
            let now = sim.with(|s| s.now);
            res.lock().unwrap().t_stopped.insert((ci, sid), now);
        }
    }
    lbl.set("done");
}

async fn client_main(sim: Sim, res: Res, lbl: Lbl, ep: Endpoint, cfg: quinn::ClientConfig, server: SocketAddr, ci: u32, plan: ConnPlan) {
    lbl.set("connect");
    let conn = match ep.connect_with(cfg, server, "localhost") {
        Ok(c) => match match plan.abandon_connect {
            Some(n) => match poll_n(c, n).await {
                Some(r) => r,
                None => {
                    // the only handle to the connection is gone: it is closed implicitly, drains,
                    // and the endpoint becomes idle
                    sim.with(|s| s.probes.hit("connecting_dropped_while_pending"));
                    lbl.set("wait_idle() after dropping Connecting");
                    ep.wait_idle().await;
                    res.lock().unwrap().open_conns_at_end.push(ep.open_connections());
                    drop(ep);
                    res.lock().unwrap().clients_done += 1;
                    lbl.set("done");
                    return;
                }
            },
            None => c.await,
        } {
            Ok(_) if plan.gate != 0 => {
                sim.violate("async-refused-connection-established", format!("client {}: connect() succeeded although the server application {} every attempt of this client", ci, if plan.gate == 3 { "ignores" } else { "refuses" }));
                return;
            }
            Ok(c) => c,
            Err(e) if plan.gate != 0 => {
                // the attempt was meant to fail — with the reason the server's decision implies
                let refused = matches!(&e, quinn::ConnectionError::ConnectionClosed(c) if c.error_code == quinn_proto::TransportErrorCode::CONNECTION_REFUSED);
                let timed_out = matches!(e, quinn::ConnectionError::TimedOut);
                let (fault_free, lossy, server_gone) = { let r = res.lock().unwrap(); (r.fault_free, r.lossy, r.lost.contains(&ci)) };
                // (a server endpoint that was closed meanwhile refuses or stays silent by itself)
                let ok = server_gone || if plan.gate == 3 { timed_out } else { refused || (lossy && timed_out) };
                if !ok && (fault_free || !timed_out) {
                    sim.violate("async-connect-wrong-failure", format!("client {}: the server application {} the attempt, connect() failed with: {}", ci, match plan.gate { 1 => "refused", 2 => "dropped", _ => "ignored" }, e));
                    return;
                }
                sim.with(|s| s.probes.hit(if refused { "connect_failed_refused" } else { "connect_failed_timed_out" }));
                lbl.set("wait_idle()");
                ep.wait_idle().await;
                res.lock().unwrap().open_conns_at_end.push(ep.open_connections());
                drop(ep);
                res.lock().unwrap().clients_done += 1;
                lbl.set("done");
                return;
            }
            Err(e) => {
                if res.lock().unwrap().lost.contains(&ci) {
                    // (the server endpoint was closed under the handshake's feet)
                    sim.with(|s| s.probes.hit("connect_failed_server_gone"));
                    lbl.set("wait_idle()");
                    ep.wait_idle().await;
                    res.lock().unwrap().open_conns_at_end.push(ep.open_connections());
                    drop(ep);
                    res.lock().unwrap().clients_done += 1;
                    lbl.set("done");
                    return;
                }
                sim.violate("async-connect-failed", format!("client {}: {}", ci, e));
                return;
            }
        },
        Err(e) => {
            sim.violate("async-connect-failed", format!("client {}: {}", ci, e));
            return;
        }
    };
    {
        // handshake_confirmed() must complete (or fail with the connection): a waiter of its own
        let (r2, c2) = (res.clone(), conn.clone());
        spawn(&sim, &res, format!("client{}-confirmed", ci), move |l| {
            Box::pin(async move {
                l.set("handshake_confirmed()");
                if c2.handshake_confirmed().await.is_ok() {
                    r2.lock().unwrap().client_confirmed.insert(ci);
                }
                drop(c2);
                l.set("done");
            })
        });
    }
    if let Some((after, kind)) = plan.rebind {
        let (s2, ep2, r2) = (sim.clone(), ep.clone(), res.clone());
        spawn(&sim, &res, format!("client{}-rebind", ci), move |l| {
            Box::pin(async move {
                // a client must not change its address before the handshake is confirmed (the
                // server discards packets from another address until it has completed it)
                l.set("waiting for the server's handshake to complete");
                let mut nap = MS;
                while !{ let r = r2.lock().unwrap(); r.server_ready.contains(&ci) && r.client_confirmed.contains(&ci) } {
                    if ep2.open_connections() == 0 {
                        l.set("done");
                        return;
                    }
                    sleep(&s2, nap).await;
                    nap = (nap * 2).min(500 * MS);
                }
                l.set("waiting to rebind");
                sleep(&s2, after).await;
                let addr = if kind == 0 { cfgs::addr(1 + ci, 500) } else { cfgs::addr(60 + ci, 0) };
                if ep2.rebind_abstract(s2.socket(addr)).is_ok() {
                    s2.with(|s| s.faults.hit("endpoint_rebind"));
                }
                drop(ep2);
                l.set("done");
            })
        });
    }
    let (tx, mut rx) = tokio::sync::mpsc::unbounded_channel::<()>();
    let mut expected = 0;
    for (si, p) in plan.streams.iter().cloned().enumerate() {
        let (s2, r2, c2, tx2) = (sim.clone(), res.clone(), conn.clone(), tx.clone());
        expected += 1;
        spawn(&sim, &res, format!("client{}-stream{}", ci, si), move |l| {
            Box::pin(async move {
                client_stream(s2, r2, l, c2, ci, p, si).await;
                let _ = tx2.send(());
            })
        });
    }
    if plan.dgrams > 0 {
        let (s2, r2, c2, tx2) = (sim.clone(), res.clone(), conn.clone(), tx.clone());
        expected += 1;
        let n = plan.dgrams;
        spawn(&sim, &res, format!("client{}-dgram-tx", ci), move |l| {
            Box::pin(async move {
                for k in 0..n {
                    let len = [20usize, 1, 300, 1100][draw(&s2, "c18.dg_len", 4) as usize];
                    let mut b = vec![0u8; len];
                    pat_fill(mix(&[KEY, 0xD6, ci as u64, k as u64]), 0, &mut b);
                    let id = mix(&[fnv(&b), len as u64]);
                    *r2.lock().unwrap().dgram_sent.entry(id).or_insert(0) += 1;
                    l.set(&format!("send_datagram_wait {}", k));
                    if c2.send_datagram_wait(Bytes::from(b)).await.is_err() {
                        break;
                    }
                }
                l.set("done");
                let _ = tx2.send(());
            })
        });
    }
    if plan.parked {
        // operations that can only complete when the connection ends
        let c2 = conn.clone();
        spawn(&sim, &res, format!("client{}-parked-closed", ci), move |l| {
            Box::pin(async move {
                l.set("closed()");
                let _ = c2.closed().await;
                l.set("done");
            })
        });
        let c2 = conn.clone();
        spawn(&sim, &res, format!("client{}-parked-accept-uni", ci), move |l| {
            Box::pin(async move {
                l.set("accept_uni()");
                while c2.accept_uni().await.is_ok() {}
                l.set("done");
            })
        });
        let (c2, s2, r2) = (conn.clone(), sim.clone(), res.clone());
        spawn(&sim, &res, format!("client{}-parked-read-datagram", ci), move |l| {
            Box::pin(async move {
                let mut tries = 0u32;
                loop {
                    l.set("read_datagram()");
                    tries += 1;
                    let r = if tries % 2 == 0 { Some(c2.read_datagram().await) } else { poll_n(c2.read_datagram(), 1 + draw(&s2, "c18.cancel_dg", 3)).await };
                    match r {
                        None => {
                            r2.lock().unwrap().cancels += 1;
                            YieldNow(false).await;
                        }
                        Some(Ok(_)) => {}
                        Some(Err(_)) => break,
                    }
                }
                l.set("done");
            })
        });
    }
    drop(tx);
    for _ in 0..expected {
        lbl.set("join stream tasks");
        if rx.recv().await.is_none() {
            break;
        }
    }
    // close() is abrupt by design (data not yet handed to the peer application may be discarded):
    // the scenario ends a connection only once the server application has read what was sent
    let mut nap = MS;
    loop {
        if let Some(e) = conn.close_reason() {
            let mut r = res.lock().unwrap();
            if r.lossy && matches!(e, quinn::ConnectionError::TimedOut) {
                r.lost.insert(ci);
            } else {
                r.unexpected.push((ci, format!("client {}: connection ended by itself: {}", ci, e)));
            }
            break;
        }
        let all = {
            let r = res.lock().unwrap();
            r.written.iter().filter(|((c, _), (_, complete))| *c == ci && *complete).all(|(k, (n, _))| r.read.get(k) == Some(n))
        };
        if all {
            break;
        }
        lbl.set("waiting for the server application to have read every finished stream");
        sleep(&sim, nap).await;
        nap = (nap * 2).min(1000 * MS);
    }
    {
        // A response to a request was read: the server had completed the handshake two trips
        // ago and its HANDSHAKE_DONE travelled ahead of that response. On a network without
        // faults handshake_confirmed() must have returned by now — not only when the connection
        // goes away.
        let r = res.lock().unwrap();
        if r.fault_free && r.resp_read.keys().any(|(c, _)| *c == ci) && !r.client_confirmed.contains(&ci) && conn.close_reason().is_none() {
            drop(r);
            sim.violate("async-completion-late", format!("client {}: a response has been read to its end, yet handshake_confirmed() has not returned (fault-free network)", ci));
        }
    }
    res.lock().unwrap().closing.insert(ci);
    if plan.explicit_close || plan.parked {
        lbl.set("close");
        conn.close(VarInt::from_u32(7), b"bye");
    }
    drop(conn);
    lbl.set("wait_idle()");
    ep.wait_idle().await;
    res.lock().unwrap().open_conns_at_end.push(ep.open_connections());
    drop(ep);
    res.lock().unwrap().clients_done += 1;
    lbl.set("done");
}

async fn server_stream(sim: Sim, res: Res, lbl: Lbl, ci: u32, send: Option<SendStream>, mut recv: RecvStream, resp: usize) {
    let sid = VarInt::from(recv.id()).into_inner();
    let what = format!("s{}/{}", ci, sid);
    let got = read_all(&sim, &res, &lbl, ci, &mut recv, skey(ci, sid, false), &what).await;
    if let Some(n) = got {
        let now = sim.with(|s| s.now);
        res.lock().unwrap().t_read.insert((ci, sid), now);
        let prev = res.lock().unwrap().read.insert((ci, sid), n);
        if prev.is_some() {
            sim.violate("async-stream-delivered-twice", format!("{}: accepted and read to the end twice", what));
        }
    }
    if let Some(mut send) = send {
        if got.is_some() {
            write_all(&sim, &res, &lbl, ci, &mut send, skey(ci, sid, true), resp, 1000, 2, &format!("{} response", what)).await;
            let _ = send.finish();
            lbl.set(&format!("{} response stopped()", what));
            let _ = send.stopped().await;
        }
    }
    lbl.set("done");
}

async fn server_conn(sim: Sim, res: Res, lbl: Lbl, conn: Connection, ci: u32, resp: usize) {
    let (tx, mut rx) = tokio::sync::mpsc::unbounded_channel::<()>();
    // three acceptors race on the same connection
    {
        let (s2, r2, c2, tx2) = (sim.clone(), res.clone(), conn.clone(), tx.clone());
        spawn(&sim, &res, format!("server-conn{}-accept-uni", ci), move |l| {
            Box::pin(async move {
                let mut k = 0;
                let mut tries = 0u32;
                loop {
                    l.set("accept_uni()");
                    tries += 1;
                    let r = if tries % 2 == 0 { Some(c2.accept_uni().await) } else { poll_n(c2.accept_uni(), 1 + draw(&s2, "c18.cancel_acc", 3)).await };
                    match r {
                        None => {
                            r2.lock().unwrap().cancels += 1;
                            YieldNow(false).await;
                        }
                        Some(Ok(recv)) => {
                            k += 1;
                            let (s3, r3) = (s2.clone(), r2.clone());
                            spawn(&s2, &r2, format!("server-conn{}-uni{}", ci, k), move |l| Box::pin(server_stream(s3, r3, l, ci, None, recv, 0)));
                        }
                        Some(Err(_)) => break,
                    }
                }
                l.set("done");
                let _ = tx2.send(());
            })
        });
    }
    {
        let (s2, r2, c2, tx2) = (sim.clone(), res.clone(), conn.clone(), tx.clone());
        spawn(&sim, &res, format!("server-conn{}-accept-bi", ci), move |l| {
            Box::pin(async move {
                let mut k = 0;
                loop {
                    l.set("accept_bi()");
                    match c2.accept_bi().await {
                        Ok((send, recv)) => {
                            k += 1;
                            let (s3, r3) = (s2.clone(), r2.clone());
                            spawn(&s2, &r2, format!("server-conn{}-bi{}", ci, k), move |l| Box::pin(server_stream(s3, r3, l, ci, Some(send), recv, resp)));
                        }
                        Err(_) => break,
                    }
                }
                l.set("done");
                let _ = tx2.send(());
            })
        });
    }
    {
        let (s2, r2, c2, tx2) = (sim.clone(), res.clone(), conn.clone(), tx.clone());
        spawn(&sim, &res, format!("server-conn{}-read-datagram", ci), move |l| {
            Box::pin(async move {
                let mut tries = 0u32;
                loop {
                    l.set("read_datagram()");
                    tries += 1;
                    let r = if tries % 2 == 0 { Some(c2.read_datagram().await) } else { poll_n(c2.read_datagram(), 1 + draw(&s2, "c18.cancel_dg_s", 3)).await };
                    match r {
                        None => {
                            r2.lock().unwrap().cancels += 1;
                            YieldNow(false).await;
                        }
                        Some(Ok(b)) => {
                            let id = mix(&[fnv(&b), b.len() as u64]);
                            *r2.lock().unwrap().dgram_recv.entry(id).or_insert(0) += 1;
                        }
                        Some(Err(_)) => break,
                    }
                }
                l.set("done");
                let _ = tx2.send(());
            })
        });
    }
    drop(tx);
    drop(conn);
    for _ in 0..3 {
        lbl.set("join acceptors");
        if rx.recv().await.is_none() {
            break;
        }
    }
    res.lock().unwrap().server_conns_done += 1;
    lbl.set("done");
}

async fn server_main(sim: Sim, res: Res, lbl: Lbl, ep: Endpoint, n_conns: u32, addr_to_ci: BTreeMap<SocketAddr, u32>, resp: usize, seq_ci: Option<Vec<u32>>, gates: BTreeMap<u32, u8>, abrupt: Option<Ns>) {
    let (tx, mut rx) = tokio::sync::mpsc::unbounded_channel::<()>();
    {
        let (s2, r2, ep2, tx2) = (sim.clone(), res.clone(), ep.clone(), tx.clone());
        spawn(&sim, &res, "server-accept".to_string(), move |l| {
            Box::pin(async move {
                let mut n_seen = 0usize;
                loop {
                    l.set("Endpoint::accept()");
                    let Some(inc) = ep2.accept().await else { break };
                    // address validation by Retry, decided per Incoming
                    // (not where connections are told apart by their order: every tokenless
                    // Initial, retransmissions included, would then count as one)
                    if seq_ci.is_none() && inc.may_retry() && draw(&s2, "c18.retry", 4) == 3 {
                        if inc.retry().is_ok() {
                            s2.with(|s| s.probes.hit("incoming_retried"));
                        }
                        continue;
                    }
                    let ci = match &seq_ci {
                        // (connections told apart by their order rather than by their address)
                        Some(v) => {
                            let k = n_seen;
                            n_seen += 1;
                            v.get(k).copied().unwrap_or(999)
                        }
                        None => addr_to_ci.get(&inc.remote_address()).copied().unwrap_or(999),
                    };
                    match gates.get(&ci).copied().unwrap_or(0) {
                        1 => {
                            inc.refuse();
                            s2.with(|s| s.probes.hit("incoming_refused"));
                            continue;
                        }
                        2 => {
                            drop(inc);
                            s2.with(|s| s.probes.hit("incoming_dropped"));
                            continue;
                        }
                        3 => {
                            inc.ignore();
                            s2.with(|s| s.probes.hit("incoming_ignored"));
                            continue;
                        }
                        _ => {}
                    }
                    // (one task per handshake: a stalled one must not hold up the others)
                    let (s3, r3, tx3) = (s2.clone(), r2.clone(), tx2.clone());
                    spawn(&s2, &r2, format!("server-conn{}", ci), move |l| {
                        Box::pin(async move {
                            // one in three servers starts using the connection at once (0.5-RTT:
                            // `Connecting::into_0rtt` always succeeds on the server side)
                            if draw(&s3, "c18.half_rtt", 3) == 2 {
                                l.set("Incoming::accept + into_0rtt");
                                if let Ok(connecting) = inc.accept() {
                                    match connecting.into_0rtt() {
                                        Ok(conn) => {
                                            s3.with(|s| s.probes.hit("server_half_rtt_connection"));
                                            let (r4, c4) = (r3.clone(), conn.clone());
                                            spawn(&s3, &r3, format!("server-conn{}-established", ci), move |l2| {
                                                Box::pin(async move {
                                                    l2.set("handshake_confirmed()");
                                                    if c4.handshake_confirmed().await.is_ok() {
                                                        r4.lock().unwrap().server_ready.insert(ci);
                                                    }
                                                    drop(c4);
                                                    l2.set("done");
                                                })
                                            });
                                            server_conn(s3, r3, l, conn, ci, resp).await
                                        }
                                        Err(connecting) => {
                                            if let Ok(conn) = connecting.await {
                                                r3.lock().unwrap().server_ready.insert(ci);
                                                server_conn(s3, r3, l, conn, ci, resp).await
                                            }
                                        }
                                    }
                                }
                            } else {
                                l.set("Incoming await");
                                match inc.await {
                                    Ok(conn) => {
                                        r3.lock().unwrap().server_ready.insert(ci);
                                        server_conn(s3, r3, l, conn, ci, resp).await
                                    }
                                    Err(_) => {}
                                }
                            }
                            let _ = tx3.send(());
                        })
                    });
                }
                l.set("done");
            })
        });
    }
    drop(tx);
    // The server goes away once every client is done. (Counting finished server connections
    // is not enough: a late duplicate of a client's Initial gives rise to a second Incoming whose
    // handshake fails at once.)
    let _ = &mut rx;
    let mut nap = MS;
    loop {
        lbl.set("wait for the clients to finish");
        if res.lock().unwrap().clients_done >= n_conns {
            break;
        }
        if let Some(t) = abrupt {
            let now = sim.with(|s| s.now);
            if now >= t {
                // the server process goes away under everybody's feet: whatever the clients were
                // doing may fail from here on, but every pending operation must still complete
                let mut r = res.lock().unwrap();
                for ci in 0..n_conns {
                    r.lost.insert(ci);
                }
                r.server_gone = true;
                drop(r);
                sim.with(|s| s.probes.hit("server_endpoint_closed_mid_workload"));
                break;
            }
            nap = nap.min(t - now);
        }
        sleep(&sim, nap).await;
        nap = (nap * 2).min(500 * MS);
    }
    lbl.set("Endpoint::close + wait_idle()");
    ep.close(VarInt::from_u32(0), b"");
    ep.wait_idle().await;
    res.lock().unwrap().open_conns_at_end.push(ep.open_connections());
    drop(ep);
    lbl.set("done");
}

fn draw_plan(ch: &mut Chooser, big: bool) -> ConnPlan {
    let n = ch.range("c18.n_streams", 0, 5) as usize;
    let mut streams = Vec::new();
    for _ in 0..n {
        streams.push(StreamPlan {
            bi: ch.chance("c18.bi", 1, 2),
            size: ch.range_log("c18.size", 0, if big { 300_000 } else { 30_000 }) as usize,
            chunk: *ch.pick("c18.chunk", &[4096usize, 1, 100, 1200, 65_536]),
            cancel_w: ch.choose("c18.cancel_w_max", 4),
            drop_unfinished: ch.chance("c18.drop_unfinished", 1, 4),
            resp: ch.range_log("c18.resp", 0, 20_000) as usize,
            stop_after: if ch.chance("c18.stop_after", 1, 5) { Some(ch.range_log("c18.stop_after_n", 0, 5000) as usize) } else { None },
            reset_after: if ch.chance("c18.reset_after", 1, 6) { Some((ch.range_log("c18.reset_after_n", 0, 5000) as usize, 100 + ch.choose("c18.reset_code", 50))) } else { None },
        });
    }
    // (single-byte chunks on big streams would only burn steps)
    for s in streams.iter_mut() {
        s.chunk = s.chunk.max(s.size / 400 + 1);
        if s.stop_after.is_some() {
            s.reset_after = None;
        }
    }
    ConnPlan { streams, dgrams: if ch.chance("c18.dgrams", 1, 2) { ch.range("c18.n_dgrams", 1, 20) as u32 } else { 0 }, explicit_close: ch.chance("c18.explicit_close", 1, 2), parked: ch.chance("c18.parked", 1, 2), rebind: None, gate: 0, abandon_connect: None }
}

fn run(mut ch: Chooser, ctx: &RunCtx, faults: bool, big: bool) -> RunOut {
    cfgs::seed_tls(mix(&[0xA5, 18]));
    let n_clients = 1 + ch.choose("c18.n_clients", 3);
    let mut plans: Vec<ConnPlan> = (0..n_clients).map(|_| draw_plan(&mut ch, big)).collect();
    if faults {
        // Endpoint::rebind: the endpoint driver swaps sockets under the connections' feet
        for p in plans.iter_mut() {
            if ch.chance("c18.rebind", 1, 4) {
                p.rebind = Some((ch.range_log("c18.rebind_us", 1, 3_000_000) * 1000, ch.choose("c18.rebind_kind", 2)));
            }
        }
    }
    // some clients are turned away by the server application
    for p in plans.iter_mut() {
        if ch.chance("c18.gate", 1, 6) {
            p.gate = 1 + ch.choose("c18.gate_kind", 3) as u8;
            p.rebind = None;
        }
        if ch.chance("c18.abandon_connect", 1, 8) {
            p.abandon_connect = Some(1 + ch.choose("c18.abandon_polls", 6));
        }
    }
    let abrupt: Option<Ns> = if ch.chance("c18.server_abrupt_close", 1, 8) { Some(ch.range_log("c18.server_abrupt_close_us", 1, 3_000_000) * 1000) } else { None };
    let knobs_s = if ch.chance("c18.default_knobs", 1, 2) { TKnobs::default() } else { TKnobs::draw(&mut ch) };
    let knobs_c = if ch.chance("c18.default_knobs_c", 1, 2) { TKnobs::default() } else { TKnobs::draw(&mut ch) };
    let mut ks = knobs_s.clone();
    let mut kc = knobs_c.clone();
    for k in [&mut ks, &mut kc] {
        // (a CONNECTION_CLOSE that is lost is only ever noticed through the idle timeout)
        k.idle_ms = Some(60_000);
        k.keep_alive_ms = None;
        // every planned stream must be openable
        k.max_bidi = k.max_bidi.max(1);
        k.max_uni = k.max_uni.max(1);
        k.stream_window = k.stream_window.max(64);
        k.conn_window = k.conn_window.max(64);
        k.send_window = k.send_window.max(64);
    }
    let fault_ms = if faults { ch.range("c18.fault_ms", 1, 3000) } else { 0 };
    let net = crate::asim::ANet {
        faults,
        base_delay: *ch.pick("c18.delay", &[5 * MS, MS, 50 * MS, 200 * MS, 100_000]),
        jitter: *ch.pick("c18.jitter", &[0, MS, 20 * MS]),
        drop: if faults { *ch.pick("c18.drop", &[20u32, 0, 100, 300]) } else { 0 },
        dup: if faults { *ch.pick("c18.dup", &[0u32, 50, 200]) } else { 0 },
        reorder: if faults { *ch.pick("c18.reorder", &[0u32, 100, 300]) } else { 0 },
        would_block: *ch.pick("c18.would_block", &[0u32, 0, 50, 300]),
    };
    let mut net = net;
    if plans.iter().any(|p| p.rebind.is_some()) {
        // (path validation gives up after three probe timeouts computed from the configured
        // initial RTT: keep the round trip within it, see DESIGN.md §A.4 on the resulting
        // challenge / response storm)
        let irtt = ks.initial_rtt_ms.min(kc.initial_rtt_ms) * MS;
        net.base_delay = net.base_delay.min(irtt / 4);
        net.jitter = net.jitter.min(irtt / 4);
        // (... and a rate cap must not hold a padded PATH_RESPONSE back for longer than three
        // probe timeouts on a fast path: same loop, same section)
        for k in [&mut ks, &mut kc] {
            if k.pacing_cap.is_some_and(|c| c < 1_000_000) {
                k.pacing_cap = Some(1_000_000);
            }
        }
    }
    let resp = 2000usize;
    let sim = Sim::new(ch, ctx.log);
    sim.with(|s| s.deadline = ctx.deadline);
    sim.with(|s| s.net = net.clone());
    let rt: Arc<dyn quinn::Runtime> = Arc::new(SimRuntime(sim.clone()));
    let res: Res = Arc::new(Mutex::new(Results::default()));
    res.lock().unwrap().lossy = net.faults && net.drop > 0;
    res.lock().unwrap().fault_free = !net.faults;
    let clock = cfgs::SimTime::new();

    // server
    let server_addr = cfgs::addr(0, 0);
    // (debugging aid: with --log the packets' plaintext is recorded and dumped at the end)
    let dbg_tap = if ctx.log { Some(crate::tap::new_tap()) } else { None };
    let scfg = {
        let crypto = match &dbg_tap {
            Some(t) => cfgs::tapped_server_crypto(t, 0, cfgs::rustls_server(false, true)),
            None => cfgs::untapped_server_crypto(cfgs::rustls_server(false, true)),
        };
        cfgs::server_config(crypto, 0x70, Arc::new(ks.build()), clock.clone())
    };
    let sep = EpOpts { seed: 0x5E47, cid_len: 8, ..Default::default() };
    let server_ep = Endpoint::new_with_abstract_socket(cfgs::endpoint_config(&sep), Some(scfg), sim.socket(server_addr), rt.clone()).expect("server endpoint");
    let mut addr_to_ci = BTreeMap::new();
    for ci in 0..n_clients {
        addr_to_ci.insert(cfgs::addr(1 + ci, 0), ci);
    }
    let gates: BTreeMap<u32, u8> = plans.iter().enumerate().map(|(ci, p)| (ci as u32, p.gate)).collect();
    {
        let (s2, r2) = (sim.clone(), res.clone());
        spawn(&sim, &res, "server-main".to_string(), move |l| Box::pin(server_main(s2, r2, l, server_ep, n_clients, addr_to_ci, resp, None, gates, abrupt)));
    }
    // clients
    for ci in 0..n_clients {
        let cep = EpOpts { seed: 0xC11E ^ ((ci as u64) << 20), cid_len: 8, reset_key_seed: 100 + ci as u64, ..Default::default() };
        let ep = Endpoint::new_with_abstract_socket(cfgs::endpoint_config(&cep), None, sim.socket(cfgs::addr(1 + ci, 0)), rt.clone()).expect("client endpoint");
        let crypto = match &dbg_tap {
            Some(t) => cfgs::tapped_client_crypto(t, 1 + ci, cfgs::rustls_client(true)),
            None => cfgs::untapped_client_crypto(cfgs::rustls_client(true)),
        };
        let ccfg = cfgs::client_config(crypto, Arc::new(kc.build()), 0xDC1D ^ ci as u64);
        let (s2, r2, plan) = (sim.clone(), res.clone(), plans[ci as usize].clone());
        spawn(&sim, &res, format!("client{}-main", ci), move |l| Box::pin(client_main(s2, r2, l, ep, ccfg, server_addr, ci, plan)));
    }
    if faults {
        let s2 = sim.clone();
        sim.spawn_app("clean-switch", async move {
            sleep(&s2, fault_ms * MS).await;
            s2.with(|s| s.net.faults = false);
            s2.log(|| "--- fault phase over ---".to_string());
        });
    }
    drop(rt);
    let budget: Ns = fault_ms * MS + 3 * 3600 * 1_000_000_000;
    let finished = sim.run(6_000_000, budget);

    if let Some(t) = &dbg_tap {
        let t = t.lock().unwrap();
        let n = t.pkts.len();
        for p in t.pkts.iter().skip(n.saturating_sub(4000)) {
            let kn = t.keys.get(p.key as usize).map_or(99, |k| k.node);
            let line = format!("pkt keynode{} {}", kn, crate::world::describe_pkt_list(std::iter::once(p)));
            sim.with(|s| s.log.push(line));
        }
    }
    // ---- oracle -----------------------------------------------------------------------------
    let r = res.lock().unwrap();
    let (pending_app, pending_drv): (Vec<String>, usize) = sim.with(|s| {
        let app: Vec<String> = s.metas.iter().filter(|m| m.app && !m.done).map(|m| m.name.clone()).collect();
        let drv = s.metas.iter().filter(|m| !m.app && !m.done).count();
        (app, drv)
    });
    if sim.with(|s| s.violations.is_empty()) {
        if !pending_app.is_empty() {
            let ops: Vec<String> = pending_app.iter().map(|n| format!("{} [{}]", n, r.labels.iter().find(|(k, _)| k == n).map(|(_, l)| l.lock().unwrap().clone()).unwrap_or_default())).collect();
            let kind = if finished { "async-operation-never-completed" } else { "async-no-progress" };
            sim.violate(kind, format!("{}: application tasks still pending: {}", if finished { "the world is quiescent (no runnable task, no timer, no datagram in flight)" } else { "step / virtual-time budget exhausted" }, ops.join("; ")));
        } else if pending_drv > 0 {
            sim.violate("async-driver-task-never-terminated", format!("every application task has finished and every handle is dropped, yet {} task(s) spawned by quinn are still alive", pending_drv));
        } else if r.open_conns_at_end.iter().any(|n| *n != 0) {
            sim.violate("async-open-connections-after-wait-idle", format!("open_connections() after wait_idle(): {:?}", r.open_conns_at_end));
        }
    }
    if sim.with(|s| s.violations.is_empty()) && !faults {
        // on a loss-free network stopped() must return soon after the peer application consumed
        // the stream (the acknowledgement of the FIN can only lag by the peer's ack delay and
        // one trip), not when something unrelated finally wakes the task
        let slack = 4 * net.base_delay + 1000 * MS;
        for (k, ts) in &r.t_stopped {
            if let Some(tr) = r.t_read.get(k) {
                if *ts > *tr + slack {
                    sim.violate("async-completion-late", format!("client {} stream {}: the server application had read the stream to its end at {}, stopped() returned at {} (loss-free network, one-way delay {})", k.0, k.1, crate::world::fmt_t(*tr), crate::world::fmt_t(*ts), crate::world::fmt_t(net.base_delay)));
                    break;
                }
            }
        }
    }
    if sim.with(|s| s.violations.is_empty()) {
        if let Some((_, e)) = r.unexpected.iter().find(|(ci, _)| !r.lost.contains(ci)) {
            sim.violate("async-unexpected-error", format!("an operation failed while its connection was meant to be alive: {} ({} such errors)", e, r.unexpected.len()));
        }
    }
    if sim.with(|s| s.violations.is_empty()) {
        for ((ci, sid), (n, complete)) in &r.written {
            if !*complete || r.lost.contains(ci) {
                continue;
            }
            match r.read.get(&(*ci, *sid)) {
                Some(k) if k == n => {}
                other => {
                    sim.violate("async-stream-incomplete", format!("client {} wrote {} bytes on stream {} and ended it, the server read {:?}", ci, n, sid, other));
                    break;
                }
            }
        }
        for (id, k) in &r.dgram_recv {
            let sent = r.dgram_sent.get(id).copied().unwrap_or(0);
            if *k > sent {
                sim.violate("async-datagram-unknown-or-duplicated", format!("a datagram was received {} times but sent {} times", k, sent));
                break;
            }
        }
    }
    let cancels = r.cancels;
    let n_lost = if r.server_gone { 0 } else { r.lost.len() as u64 };
    drop(r);
    sim.with(|s| {
        if cancels > 0 {
            s.probes.m.insert("futures_cancelled", cancels);
        }
        if n_lost > 0 {
            s.probes.m.insert("connection_lost_to_idle_timeout_on_lossy_network", n_lost);
        }
        let mut o = RunOut {
            violations: std::mem::take(&mut s.violations),
            faults: s.faults.clone(),
            probes: s.probes.clone(),
            sig: s.sig,
            nontrivial: true,
            steps: s.steps,
            sim_ns: s.now,
            hit_limit: if finished { None } else if s.wall_aborted { Some("wall") } else { Some("budget") },
            panic: None,
            choices: s.ch.values(),
            log: std::mem::take(&mut s.log),
            trace: std::mem::take(&mut s.trace),
            stats: BTreeMap::new(),
            config: format!("clients={} plans={:?} net={:?} fault_ms={} server={:?} client={:?}", n_clients, plans, net, fault_ms, ks, kc),
        };
        o.stats.insert("tasks", s.metas.len() as f64);
        o.stats.insert("datagrams_on_wire", s.dgrams_sent as f64);
        o
    })
}

/// 0-RTT through the async API: connect once to obtain a ticket, then connect again with
/// `Connecting::into_0rtt()` and use the connection before the handshake has completed. The
/// server either accepts the early data or (its configuration replaced in between through
/// `Endpoint::set_server_config`) resumes the session but refuses it.
async fn client_main_0rtt(sim: Sim, res: Res, lbl: Lbl, ep: Endpoint, cfg: quinn::ClientConfig, server: SocketAddr, server_ep: Endpoint, reject_cfg: Option<quinn::ServerConfig>, first: ConnPlan, early: ConnPlan, post: ConnPlan) {
    // first connection: obtains the ticket
    lbl.set("connect (first)");
    let conn = match ep.connect_with(cfg.clone(), server, "localhost") {
        Ok(c) => match c.await {
            Ok(c) => c,
            Err(e) => {
                sim.violate("async-connect-failed", format!("first connection: {}", e));
                return;
            }
        },
        Err(e) => {
            sim.violate("async-connect-failed", format!("first connection: {}", e));
            return;
        }
    };
    run_streams(&sim, &res, &lbl, &conn, 0, &first).await;
    wait_server_read(&sim, &res, &lbl, &conn, 0).await;
    res.lock().unwrap().closing.insert(0);
    conn.close(VarInt::from_u32(7), b"first");
    lbl.set("closed() (first)");
    let _ = conn.closed().await;
    drop(conn);
    if let Some(c) = reject_cfg {
        server_ep.set_server_config(Some(c));
        sim.with(|s| s.faults.hit("server_config_replaced"));
    }
    drop(server_ep);
    // second connection
    lbl.set("connect (second)");
    let connecting = match ep.connect_with(cfg, server, "localhost") {
        Ok(c) => c,
        Err(e) => {
            sim.violate("async-connect-failed", format!("second connection: {}", e));
            return;
        }
    };
    let reject = res.lock().unwrap().zr_reject;
    let conn = match connecting.into_0rtt() {
        Ok(conn) => {
            sim.with(|s| s.probes.hit("client_into_0rtt"));
            res.lock().unwrap().zr_early_streams += early.streams.len() as u32;
            if reject {
                // whatever the early streams report is judged at the end (every one of them has
                // to fail with ZeroRttRejected; none may hang)
                res.lock().unwrap().closing.insert(1);
            }
            {
                let (s2, r2, c2) = (sim.clone(), res.clone(), conn.clone());
                spawn(&sim, &res, "client-second-confirmed".to_string(), move |l| {
                    Box::pin(async move {
                        l.set("handshake_confirmed()");
                        if c2.handshake_confirmed().await.is_ok() {
                            let now = s2.with(|s| s.now);
                            r2.lock().unwrap().zr_t_confirmed = Some(now);
                        }
                        drop(c2);
                        l.set("done");
                    })
                });
            }
            run_streams(&sim, &res, &lbl, &conn, 1, &early).await;
            let now = sim.with(|s| s.now);
            res.lock().unwrap().zr_t_early_done = Some(now);
            conn
        }
        Err(connecting) => {
            sim.with(|s| s.probes.hit("client_without_ticket"));
            match connecting.await {
                Ok(c) => c,
                Err(e) => {
                    sim.violate("async-connect-failed", format!("second connection: {}", e));
                    return;
                }
            }
        }
    };
    // after the handshake: the connection must be fully usable whatever happened to early data
    let ci_post = if reject { 2 } else { 1 };
    run_streams(&sim, &res, &lbl, &conn, ci_post, &post).await;
    wait_server_read(&sim, &res, &lbl, &conn, ci_post).await;
    {
        let mut r = res.lock().unwrap();
        r.closing.insert(1);
        r.closing.insert(2);
    }
    conn.close(VarInt::from_u32(7), b"second");
    drop(conn);
    lbl.set("wait_idle()");
    ep.wait_idle().await;
    res.lock().unwrap().open_conns_at_end.push(ep.open_connections());
    drop(ep);
    res.lock().unwrap().clients_done += 1;
    lbl.set("done");
}

/// run the planned streams of one connection as tasks and join them
async fn run_streams(sim: &Sim, res: &Res, lbl: &Lbl, conn: &Connection, ci: u32, plan: &ConnPlan) {
    let (tx, mut rx) = tokio::sync::mpsc::unbounded_channel::<()>();
    let mut expected = 0;
    for (si, p) in plan.streams.iter().cloned().enumerate() {
        let (s2, r2, c2, tx2) = (sim.clone(), res.clone(), conn.clone(), tx.clone());
        expected += 1;
        spawn(sim, res, format!("client-conn{}-stream{}", ci, si), move |l| {
            Box::pin(async move {
                client_stream(s2, r2, l, c2, ci, p, si).await;
                let _ = tx2.send(());
            })
        });
    }
    drop(tx);
    for _ in 0..expected {
        lbl.set(&format!("join stream tasks of connection {}", ci));
        if rx.recv().await.is_none() {
            break;
        }
    }
}

/// wait until the server application has read every stream this connection finished
async fn wait_server_read(sim: &Sim, res: &Res, lbl: &Lbl, conn: &Connection, ci: u32) {
    let mut nap = MS;
    loop {
        if conn.close_reason().is_some() {
            break;
        }
        let all = {
            let r = res.lock().unwrap();
            r.written.iter().filter(|((c, _), (_, complete))| *c == ci && *complete).all(|(k, (n, _))| r.read.get(k) == Some(n))
        };
        if all {
            break;
        }
        lbl.set("waiting for the server application to have read every finished stream");
        sleep(sim, nap).await;
        nap = (nap * 2).min(1000 * MS);
    }
}

fn run_0rtt(mut ch: Chooser, ctx: &RunCtx) -> RunOut {
    cfgs::seed_tls(mix(&[0xA5, 18, 0x0477]));
    let reject = ch.chance("c18.zr.reject", 1, 2);
    let small = |ch: &mut Chooser, n_max: u64| -> ConnPlan {
        let n = ch.range("c18.zr.n_streams", 1, n_max) as usize;
        let streams = (0..n)
            .map(|_| StreamPlan {
                bi: ch.chance("c18.zr.bi", 1, 2),
                size: ch.range_log("c18.zr.size", 0, 4000) as usize,
                chunk: *ch.pick("c18.zr.chunk", &[4096usize, 100, 1200]),
                cancel_w: ch.choose("c18.zr.cancel_w", 3),
                drop_unfinished: false,
                resp: ch.range_log("c18.zr.resp", 0, 3000) as usize,
                stop_after: None,
                reset_after: None,
            })
            .collect();
        ConnPlan { streams, dgrams: 0, explicit_close: true, parked: false, rebind: None, gate: 0, abandon_connect: None }
    };
    let first = small(&mut ch, 2);
    let early = small(&mut ch, 3);
    let post = small(&mut ch, 2);
    let mut ks = if ch.chance("c18.zr.default_knobs", 1, 2) { TKnobs::default() } else { TKnobs::draw(&mut ch) };
    let mut kc = if ch.chance("c18.zr.default_knobs_c", 1, 2) { TKnobs::default() } else { TKnobs::draw(&mut ch) };
    for k in [&mut ks, &mut kc] {
        k.idle_ms = Some(60_000);
        k.keep_alive_ms = None;
        k.max_bidi = k.max_bidi.max(4);
        k.max_uni = k.max_uni.max(4);
        k.stream_window = k.stream_window.max(64);
        k.conn_window = k.conn_window.max(64);
        k.send_window = k.send_window.max(64);
    }
    let net = crate::asim::ANet { faults: false, base_delay: *ch.pick("c18.zr.delay", &[5 * MS, MS, 50 * MS, 100_000]), jitter: 0, drop: 0, dup: 0, reorder: 0, would_block: *ch.pick("c18.zr.would_block", &[0u32, 0, 50, 300]) };
    let resp = 2000usize;
    let sim = Sim::new(ch, ctx.log);
    sim.with(|s| s.deadline = ctx.deadline);
    sim.with(|s| s.net = net.clone());
    let rt: Arc<dyn quinn::Runtime> = Arc::new(SimRuntime(sim.clone()));
    let res: Res = Arc::new(Mutex::new(Results::default()));
    res.lock().unwrap().fault_free = true;
    res.lock().unwrap().zr_reject = reject;
    let clock = cfgs::SimTime::new();
    let server_addr = cfgs::addr(0, 0);
    let tls = cfgs::rustls_server(false, true);
    let transport = Arc::new(ks.build());
    let scfg = cfgs::server_config(cfgs::untapped_server_crypto(tls.clone()), 0x70, transport.clone(), clock.clone());
    let reject_cfg = if reject {
        // the same ticket keys (the session is resumed), early data switched off
        let mut t2 = tls.clone();
        t2.max_early_data_size = 0;
        Some(cfgs::server_config(cfgs::untapped_server_crypto(t2), 0x70, transport, clock.clone()))
    } else {
        None
    };
    let sep = EpOpts { seed: 0x5E47, cid_len: 8, ..Default::default() };
    let server_ep = Endpoint::new_with_abstract_socket(cfgs::endpoint_config(&sep), Some(scfg), sim.socket(server_addr), rt.clone()).expect("server endpoint");
    {
        let (s2, r2, ep2) = (sim.clone(), res.clone(), server_ep.clone());
        // the second connection's streams are the early ones (accepted) or the ones opened after
        // the handshake (early data refused: the server never sees the early streams)
        let seq = vec![0, if reject { 2 } else { 1 }];
        spawn(&sim, &res, "server-main".to_string(), move |l| Box::pin(server_main(s2, r2, l, ep2, 1, BTreeMap::new(), resp, Some(seq), BTreeMap::new(), None)));
    }
    let cep = EpOpts { seed: 0xC11E, cid_len: 8, reset_key_seed: 100, ..Default::default() };
    let ep = Endpoint::new_with_abstract_socket(cfgs::endpoint_config(&cep), None, sim.socket(cfgs::addr(1, 0)), rt.clone()).expect("client endpoint");
    let ccfg = cfgs::client_config(cfgs::untapped_client_crypto(cfgs::rustls_client(true)), Arc::new(kc.build()), 0xDC1D);
    {
        let (s2, r2) = (sim.clone(), res.clone());
        spawn(&sim, &res, "client-main".to_string(), move |l| Box::pin(client_main_0rtt(s2, r2, l, ep, ccfg, server_addr, server_ep, reject_cfg, first, early, post)));
    }
    drop(rt);
    let finished = sim.run(3_000_000, 3 * 3600 * 1_000_000_000);
    let r = res.lock().unwrap();
    let pending_app: Vec<String> = sim.with(|s| s.metas.iter().filter(|m| m.app && !m.done).map(|m| m.name.clone()).collect());
    let pending_drv = sim.with(|s| s.metas.iter().filter(|m| !m.app && !m.done).count());
    if sim.with(|s| s.violations.is_empty()) {
        if !pending_app.is_empty() {
            let ops: Vec<String> = pending_app.iter().map(|n| format!("{} [{}]", n, r.labels.iter().find(|(k, _)| k == n).map(|(_, l)| l.lock().unwrap().clone()).unwrap_or_default())).collect();
            let kind = if finished { "async-operation-never-completed" } else { "async-no-progress" };
            sim.violate(kind, format!("0-RTT world (server {} early data): application tasks still pending: {}", if reject { "refuses" } else { "accepts" }, ops.join("; ")));
        } else if pending_drv > 0 {
            sim.violate("async-driver-task-never-terminated", format!("every application task has finished and every handle is dropped, yet {} task(s) spawned by quinn are still alive", pending_drv));
        } else if r.open_conns_at_end.iter().any(|n| *n != 0) {
            sim.violate("async-open-connections-after-wait-idle", format!("open_connections() after wait_idle(): {:?}", r.open_conns_at_end));
        } else if let Some((_, e)) = r.unexpected.first() {
            sim.violate("async-unexpected-error", format!("0-RTT world (server {} early data): {} ({} such errors)", if reject { "refuses" } else { "accepts" }, e, r.unexpected.len()));
        } else if !reject && r.zr_errors > 0 {
            sim.violate("async-zero-rtt-rejected-by-accepting-server", format!("{} operations failed with ZeroRttRejected although the server accepts early data", r.zr_errors));
        } else if reject && r.zr_t_confirmed.is_some() && r.zr_t_early_done.is_some_and(|d| d > r.zr_t_confirmed.unwrap() + 4 * net.base_delay + 1000 * MS) {
            sim.violate("async-completion-late", format!("the server refused early data and the handshake was confirmed at {}, yet the streams opened before it only ended at {} (fault-free network): a rejected stream must fail at once, not when something unrelated wakes its task", crate::world::fmt_t(r.zr_t_confirmed.unwrap()), crate::world::fmt_t(r.zr_t_early_done.unwrap())));
        } else if reject && r.zr_early_streams > 0 && r.zr_errors < r.zr_early_streams {
            sim.violate("async-rejected-early-stream-not-reported", format!("the server refused early data: {} streams were opened before the handshake completed, only {} operations reported ZeroRttRejected", r.zr_early_streams, r.zr_errors));
        } else {
            for ((ci, sid), (n, complete)) in &r.written {
                if !*complete || (reject && *ci == 1) {
                    continue;
                }
                match r.read.get(&(*ci, *sid)) {
                    Some(k) if k == n => {}
                    other => {
                        sim.violate("async-stream-incomplete", format!("connection {} wrote {} bytes on stream {} and ended it, the server read {:?} (server {} early data)", ci, n, sid, other, if reject { "refuses" } else { "accepts" }));
                        break;
                    }
                }
            }
            if reject {
                // nothing of what was sent before the handshake completed may reach the server
                if let Some(((_, sid), n)) = r.read.iter().find(|((ci, _), _)| *ci == 1) {
                    sim.violate("async-rejected-early-data-delivered", format!("the server application read {} bytes of stream {} of a connection whose early data it had refused", n, sid));
                }
            }
        }
    }
    if r.zr_early_streams > 0 {
        sim.with(|s| s.probes.hit(if reject { "early_streams_rejected" } else { "early_streams_accepted" }));
    }
    drop(r);
    sim.with(|s| {
        let mut o = RunOut { violations: std::mem::take(&mut s.violations), faults: s.faults.clone(), probes: s.probes.clone(), sig: s.sig, nontrivial: true, steps: s.steps, sim_ns: s.now, hit_limit: if finished { None } else if s.wall_aborted { Some("wall") } else { Some("budget") }, panic: None, choices: s.ch.values(), log: std::mem::take(&mut s.log), trace: std::mem::take(&mut s.trace), stats: BTreeMap::new(), config: String::new() };
        o.config = format!("0-RTT world: server {} early data on the second connection; net={:?}", if reject { "refuses" } else { "accepts" }, s.net);
        o
    })
}

fn fam_zero_rtt(ch: Chooser, ctx: &RunCtx) -> RunOut {
    run_0rtt(ch, ctx)
}

fn fam_clean(ch: Chooser, ctx: &RunCtx) -> RunOut {
    run(ch, ctx, false, false)
}
fn fam_faults(ch: Chooser, ctx: &RunCtx) -> RunOut {
    run(ch, ctx, true, false)
}
fn fam_big(ch: Chooser, ctx: &RunCtx) -> RunOut {
    run(ch, ctx, true, true)
}

pub fn spec() -> PropSpec {
    PropSpec {
        id: "C18",
        families: vec![Family { name: "clean", f: fam_clean, weight: 30 }, Family { name: "faults", f: fam_faults, weight: 55 }, Family { name: "big", f: fam_big, weight: 15 }, Family { name: "zero-rtt", f: fam_zero_rtt, weight: 15 }],
        quick_worlds: 80_000,
        thorough_worlds: 1_200_000,
        panic_is_violation: true,
        rule: "each world = one seeded execution of the real quinn crate on asyncsim: 1-3 client endpoints and one server endpoint, every task (quinn's endpoint / connection drivers and the scenario's application tasks) scheduled one poll at a time by the chooser, virtual clock, in-memory UDP with loss / duplication / reordering / not-writable faults; application futures of the cancel-safe operations are dropped after a drawn number of polls and retried; connections end by close() or by dropping every handle; non-trivial = every world; distinct = distinct sequence of scheduled task ids",
        assumptions: vec![
            "quiescence = no runnable task, no armed timer and no datagram in flight (keep-alive is off and the idle timeout is 60 s, so every world does become quiescent)",
            "a pending application task at quiescence is reported as a lost wakeup together with the operation it was waiting in",
            "the proto-level guarantees (C01...) are not re-judged here beyond stream completeness and byte identity",
        ],
        real: vec!["quinn (async API: Endpoint, Connection, SendStream, RecvStream, datagrams; endpoint and connection driver tasks): real code from /repo", "quinn-proto + rustls + ring: real code"],
        stub: vec!["executor / task scheduler: asyncsim (seeded, single-threaded)", "clock and timers: virtual (quinn::Runtime seam)", "UDP sockets and network: in-memory (quinn::AsyncUdpSocket / UdpSender seam)", "tokio::sync primitives used inside quinn: real, but driven by asyncsim"],
    }
}
