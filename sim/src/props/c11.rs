//! C11 — stream operations follow the QUIC stream state machine.
//!
//! Two applications issue *random* stream operations (open, write, finish, reset, stop, read,
//! accept, stopped, received_reset, set_priority) at drawn instants on a connection whose
//! network loses, delays and reorders packets (no duplication: which duplicate a receiver admits
//! is not observable). A small reference model predicts the result of every operation from
//!   (a) the operations both applications have issued so far, and
//!   (b) the frames each connection has *accepted* so far (tap acceptance ledger: STREAM,
//!       RESET_STREAM, STOP_SENDING, ACK) —
//! and every `Event::Stream` is checked against the same model (Finished at most once and only
//! after every byte and the FIN were acknowledged; Stopped once and with the peer's code; Opened
//! / Readable only for streams the peer really used; remote_open_streams between the number of
//! streams that are certainly still open and the number not yet certainly closed).

use std::collections::{BTreeMap, BTreeSet};

use quinn_proto::{Dir, Event, FinishError, ReadError, ReadableError, Side, StreamEvent, StreamId, VarInt, WriteError};

use crate::chooser::Chooser;
use crate::runner::{Family, PropSpec, RunCtx, RunOut};
use crate::scen::{Basic, BasicOpts, TAG_USER};
use crate::tap::NO_INC;
use crate::util::Ranges;
use crate::wire::{self, Frame, Space};
use crate::world::{IncomingAction, Ns, Scenario, World, MS};

const TAG_OP: u64 = TAG_USER + (9 << 30);

#[derive(Default, Clone, Debug)]
struct SendHalf {
    written: u64,
    finished: bool,
    reset: Option<u64>,
    /// STOP_SENDING(code) accepted by this connection
    stop_arrived: Option<u64>,
    finished_events: u32,
    stopped_events: u32,
    /// (packet number, stream range, fin) of every STREAM frame sealed
    sealed: Vec<(u64, u64, u64, bool)>,
}

#[derive(Default, Clone, Debug)]
struct RecvHalf {
    arrived: Ranges,
    fin_at: Option<u64>,
    reset: Option<(u64, u64)>,
    read_pos: u64,
    terminal_seen: bool,
    stopped: bool,
    accepted: bool,
}

#[derive(Default)]
struct ConnModel {
    send: BTreeMap<u64, SendHalf>,
    recv: BTreeMap<u64, RecvHalf>,
    /// streams opened locally, per direction (next index)
    opened: [u64; 2],
    /// highest remote index + 1 that any accepted frame referred to, per direction
    remote_seen: [u64; 2],
    accepted_n: [u64; 2],
    acked_pns: BTreeSet<u64>,
    seen_pns: BTreeSet<u64>,
}

pub struct OpScen {
    b: Basic,
    pk_seen: usize,
    m: BTreeMap<u32, ConnModel>,
    client: u32,
    server: u32,
    ops_left: u32,
    pub ops_done: u64,
    pub predicted: u64,
    /// simulation step in which each connection reported Connected (a server opens 1-RTT
    /// packets that arrive before that but does not process them)
    connected_step: BTreeMap<u32, u64>,
}

fn sid(side: Side, dir: Dir, idx: u64) -> u64 {
    VarInt::from(StreamId::new(side, dir, idx)).into_inner()
}
fn to_id(v: u64) -> StreamId {
    StreamId::new(if v & 1 == 0 { Side::Client } else { Side::Server }, if v & 2 == 0 { Dir::Bi } else { Dir::Uni }, v >> 2)
}

impl OpScen {
    /// fold newly recorded packets into the models
    fn sync(&mut self, w: &mut World) {
        let tap = w.tap.clone();
        let t = tap.lock().unwrap();
        for p in &t.pkts[self.pk_seen..] {
            if p.inc == NO_INC || p.space != Space::OneRtt || !self.m.contains_key(&p.inc) {
                continue;
            }
            let side = w.conns[p.inc as usize].side;
            let m = self.m.get_mut(&p.inc).unwrap();
            let (frames, _) = wire::frames(&p.payload);
            if p.enc {
                for f in &frames {
                    if let Frame::Stream { id, offset, len, fin, .. } = f {
                        m.send.entry(*id).or_default().sealed.push((p.pn, *offset, offset + *len as u64, *fin));
                    }
                }
                continue;
            }
            if !p.ok || !m.seen_pns.insert(p.pn) {
                continue;
            }
            if side == Side::Server && self.connected_step.get(&p.inc).is_none_or(|s| p.seq < *s) {
                continue;
            }
            for f in &frames {
                match f {
                    Frame::Ack { ranges, .. } => {
                        for (lo, hi) in ranges {
                            // (bounded: ranges are small in these worlds)
                            for pn in *lo..=(*hi).min(lo + 4096) {
                                m.acked_pns.insert(pn);
                            }
                        }
                    }
                    Frame::StopSending { id, code } => {
                        // (STOP_SENDING on a stream the peer initiated opens it here as well)
                        let remote = (*id & 1 == 0) != (side == Side::Client);
                        if remote {
                            let d = if *id & 2 == 0 { 0 } else { 1 };
                            m.remote_seen[d] = m.remote_seen[d].max((*id >> 2) + 1);
                        }
                        let h = m.send.entry(*id).or_default();
                        if h.stop_arrived.is_none() {
                            h.stop_arrived = Some(*code);
                        }
                    }
                    Frame::Stream { id, offset, len, fin, .. } => {
                        let remote = (*id & 1 == 0) != (side == Side::Client);
                        if remote {
                            let d = if *id & 2 == 0 { 0 } else { 1 };
                            m.remote_seen[d] = m.remote_seen[d].max((*id >> 2) + 1);
                        }
                        let h = m.recv.entry(*id).or_default();
                        if !h.stopped && h.reset.is_none() {
                            if *len > 0 {
                                h.arrived.insert(*offset, offset + *len as u64);
                            }
                            if *fin {
                                h.fin_at = Some(offset + *len as u64);
                            }
                        }
                    }
                    Frame::ResetStream { id, code, final_size } => {
                        let remote = (*id & 1 == 0) != (side == Side::Client);
                        if remote {
                            let d = if *id & 2 == 0 { 0 } else { 1 };
                            m.remote_seen[d] = m.remote_seen[d].max((*id >> 2) + 1);
                        }
                        let h = m.recv.entry(*id).or_default();
                        if h.reset.is_none() && !h.terminal_seen {
                            h.reset = Some((*code, *final_size));
                        }
                    }
                    Frame::MaxStreamData { id, .. } | Frame::StreamDataBlocked { id, .. } => {
                        let remote = (*id & 1 == 0) != (side == Side::Client);
                        if remote {
                            let d = if *id & 2 == 0 { 0 } else { 1 };
                            m.remote_seen[d] = m.remote_seen[d].max((*id >> 2) + 1);
                        }
                    }
                    _ => {}
                }
            }
        }
        self.pk_seen = t.pkts.len();
    }

    fn viol(&self, w: &mut World, kind: &str, d: String) {
        w.violate(kind, d);
    }

    fn one_op(&mut self, w: &mut World) {
        self.sync(w);
        let inc = if w.ch.chance("c11.side", 1, 2) { self.server } else { self.client };
        if inc == NO_INC || w.conns[inc as usize].conn.is_closed() || !self.b.wl.sides.get(&inc).is_some_and(|s| s.connected) {
            return;
        }
        let side = w.conns[inc as usize].side;
        let op = w.ch.weighted("c11.op", &[4, 8, 3, 2, 2, 8, 4, 2, 2, 1]);
        self.ops_done += 1;
        // choose a stream id: mostly known ones, sometimes one never opened
        let pick_local = |w: &mut World, m: &ConnModel| -> u64 {
            let d = if w.ch.chance("c11.uni", 1, 2) { Dir::Uni } else { Dir::Bi };
            let n = m.opened[d as usize] + 1;
            sid(side, d, w.ch.choose("c11.local_idx", n.min(6) as u32) as u64)
        };
        let pick_remote = |w: &mut World, m: &ConnModel| -> u64 {
            let d = if w.ch.chance("c11.uni_r", 1, 2) { Dir::Uni } else { Dir::Bi };
            // only streams the application was handed by accept(): quinn keeps slots for every
            // stream the peer is permitted to open, and operating on one the peer has not opened
            // (an id the API never returned) is a misuse this check does not judge
            let n = m.accepted_n[d as usize];
            if n == 0 {
                return u64::MAX;
            }
            sid(if side == Side::Client { Side::Server } else { Side::Client }, d, w.ch.choose("c11.remote_idx", n.min(6) as u32) as u64)
        };
        match op {
            // open
            0 => {
                let d = if w.ch.chance("c11.open_uni", 1, 2) { Dir::Uni } else { Dir::Bi };
                let r = w.conn_mut(inc).streams().open(d);
                let m = self.m.get_mut(&inc).unwrap();
                if let Some(id) = r {
                    let v = VarInt::from(id).into_inner();
                    if id.index() != m.opened[d as usize] || id.dir() != d || id.initiator() != side {
                        w.violate("open-returned-unexpected-id", format!("inc{} open({:?}) returned {} after {} streams of that direction", inc, d, v, m.opened[d as usize]));
                        return;
                    }
                    m.opened[d as usize] += 1;
                    m.send.entry(v).or_default();
                    if d == Dir::Bi {
                        m.recv.entry(v).or_default().accepted = true;
                    }
                }
            }
            // write on a send half (own streams of any direction, remote bidi streams)
            1 | 2 | 3 | 7 | 9 => {
                let m = self.m.get(&inc).unwrap();
                let v = if w.ch.chance("c11.send_on_remote", 1, 3) {
                    let x = pick_remote(w, m);
                    if x == u64::MAX || x & 2 != 0 {
                        return;
                    }
                    x
                } else {
                    pick_local(w, m)
                };
                let id = to_id(v);
                let remote = id.initiator() != side;
                let m = self.m.get(&inc).unwrap();
                // does the half exist?
                let exists = if remote { id.dir() == Dir::Bi && id.index() < m.accepted_n[0] } else { id.index() < m.opened[id.dir() as usize] };
                let h = m.send.get(&v).cloned().unwrap_or_default();
                let closed = !exists || h.finished || h.reset.is_some();
                match op {
                    1 => {
                        let n = 1 + w.ch.range_log("c11.write_n", 0, 3000) as usize;
                        let r = w.conn_mut(inc).send_stream(id).write(&vec![0x61; n]);
                        self.predicted += 1;
                        match (&r, closed, h.stop_arrived) {
                            (Err(WriteError::ClosedStream), true, _) => {}
                            (Err(WriteError::Stopped(c)), false, Some(code)) if c.into_inner() == code => {}
                            (Ok(k), false, None) if *k >= 1 && *k <= n => {
                                self.m.get_mut(&inc).unwrap().send.entry(v).or_default().written += *k as u64;
                            }
                            (Err(WriteError::Blocked), false, None) => {}
                            // a remote bidi stream that exists at the peer but has not been seen
                            // here yet cannot be written: ClosedStream is the only legal answer
                            _ => {
                                w.violate("write-result-unexpected", format!("inc{} write({} bytes) on stream {} returned {:?}; model: exists={} finished={} reset={:?} stop_arrived={:?}", inc, n, v, r, exists, h.finished, h.reset, h.stop_arrived));
                            }
                        }
                    }
                    2 => {
                        let r = w.conn_mut(inc).send_stream(id).finish();
                        self.predicted += 1;
                        match (&r, closed, h.stop_arrived) {
                            (Err(FinishError::ClosedStream), true, _) => {}
                            // stopped *and* already finished / reset: either answer describes it
                            (Err(FinishError::Stopped(c)), true, Some(code)) if exists && c.into_inner() == code => {}
                            (Err(FinishError::Stopped(c)), false, Some(code)) if c.into_inner() == code => {}
                            (Ok(()), false, None) => self.m.get_mut(&inc).unwrap().send.entry(v).or_default().finished = true,
                            _ => {
                                w.violate("finish-result-unexpected", format!("inc{} finish() on stream {} returned {:?}; model: exists={} finished={} reset={:?} stop_arrived={:?}", inc, v, r, exists, h.finished, h.reset, h.stop_arrived));
                            }
                        }
                    }
                    3 => {
                        let code = 1 + w.ch.choose("c11.reset_code", 50) as u64;
                        let r = w.conn_mut(inc).send_stream(id).reset(VarInt::from_u64(code).unwrap());
                        self.predicted += 1;
                        // reset succeeds while the stream has not been reset before and is not
                        // known to be fully acknowledged (which the model does not track exactly)
                        match (&r, exists, h.reset) {
                            (Ok(()), true, None) => self.m.get_mut(&inc).unwrap().send.entry(v).or_default().reset = Some(code),
                            (Err(_), false, _) | (Err(_), true, Some(_)) => {}
                            (Err(_), true, None) if h.finished => {} // finished and acknowledged: gone
                            _ => {
                                w.violate("reset-result-unexpected", format!("inc{} reset() on stream {} returned {:?}; model: exists={} finished={} reset={:?}", inc, v, r, exists, h.finished, h.reset));
                            }
                        }
                    }
                    7 => {
                        let r = w.conn_mut(inc).send_stream(id).stopped();
                        self.predicted += 1;
                        match (&r, exists, h.stop_arrived) {
                            (Ok(Some(c)), true, Some(code)) if c.into_inner() == code => {}
                            (Ok(None), true, None) => {}
                            (Err(_), false, _) => {}
                            // finished/reset and acknowledged streams are forgotten
                            (Err(_), true, _) if h.finished || h.reset.is_some() => {}
                            // a stop may have arrived after the stream was finished or reset: ignored
                            (Ok(None), true, Some(_)) if h.finished || h.reset.is_some() => {}
                            _ => {
                                w.violate("stopped-result-unexpected", format!("inc{} stopped() on stream {} returned {:?}; model: exists={} finished={} reset={:?} stop_arrived={:?}", inc, v, r, exists, h.finished, h.reset, h.stop_arrived));
                            }
                        }
                    }
                    _ => {
                        let prio = *w.ch.pick("c11.prio", &[0i32, 1, -1, 7]);
                        let r = w.conn_mut(inc).send_stream(id).set_priority(prio);
                        if r.is_ok() && !exists {
                            w.violate("priority-on-unknown-stream", format!("inc{} set_priority succeeded on stream {} that does not exist", inc, v));
                        }
                    }
                }
            }
            // accept
            4 => {
                let d = if w.ch.chance("c11.accept_uni", 1, 2) { Dir::Uni } else { Dir::Bi };
                let r = w.conn_mut(inc).streams().accept(d);
                let m = self.m.get_mut(&inc).unwrap();
                self.predicted += 1;
                match r {
                    Some(id) => {
                        let v = VarInt::from(id).into_inner();
                        if id.initiator() == side || id.dir() != d || id.index() != m.accepted_n[d as usize] || id.index() >= m.remote_seen[d as usize] {
                            w.violate("accept-result-unexpected", format!("inc{} accept({:?}) returned stream {} (next expected index {}, peer has used {} streams)", inc, d, v, m.accepted_n[d as usize], m.remote_seen[d as usize]));
                            return;
                        }
                        m.accepted_n[d as usize] += 1;
                        m.recv.entry(v).or_default().accepted = true;
                        if d == Dir::Bi {
                            m.send.entry(v).or_default();
                        }
                    }
                    None => {
                        if m.accepted_n[d as usize] < m.remote_seen[d as usize] {
                            w.violate("accept-withheld-stream", format!("inc{} accept({:?}) returned None although the peer has used {} streams and {} were accepted", inc, d, m.remote_seen[d as usize], m.accepted_n[d as usize]));
                        }
                    }
                }
            }
            // read / stop / received_reset on a receive half
            5 | 6 | 8 => {
                let m = self.m.get(&inc).unwrap();
                let v = if w.ch.chance("c11.recv_on_local", 1, 3) {
                    let x = pick_local(w, m);
                    if x & 2 != 0 {
                        return;
                    }
                    x
                } else {
                    let x = pick_remote(w, m);
                    if x == u64::MAX {
                        return;
                    }
                    x
                };
                let id = to_id(v);
                let remote = id.initiator() != side;
                let m = self.m.get(&inc).unwrap();
                let exists = if remote { id.index() < m.accepted_n[id.dir() as usize] } else { id.dir() == Dir::Bi && id.index() < m.opened[0] };
                let h = m.recv.get(&v).cloned().unwrap_or_default();
                let gone = !exists || h.terminal_seen || h.stopped;
                match op {
                    5 => {
                        let maxlen = *w.ch.pick("c11.maxlen", &[usize::MAX, 1, 100, 1200]);
                        let mut got = 0u64;
                        let mut outcome: &str = "blocked";
                        let mut code = 0u64;
                        let opened;
                        {
                            let conn = w.conn_mut(inc);
                            let mut rs = conn.recv_stream(id);
                            let res = rs.read(true);
                            match res {
                                Err(ReadableError::ClosedStream) => opened = false,
                                Err(_) => opened = false,
                                Ok(mut chunks) => {
                                    opened = true;
                                    loop {
                                        match chunks.next(maxlen) {
                                            Ok(Some(c)) => got += c.bytes.len() as u64,
                                            Ok(None) => {
                                                outcome = "end";
                                                break;
                                            }
                                            Err(ReadError::Blocked) => break,
                                            Err(ReadError::Reset(c)) => {
                                                outcome = "reset";
                                                code = c.into_inner();
                                                break;
                                            }
                                        }
                                    }
                                    let _ = chunks.finalize();
                                }
                            }
                        }
                        self.predicted += 1;
                        if gone {
                            if opened {
                                w.violate("read-on-closed-half-succeeded", format!("inc{} read() on stream {} was allowed; model: exists={} terminal_seen={} stopped={}", inc, v, exists, h.terminal_seen, h.stopped));
                            }
                            return;
                        }
                        if !opened {
                            w.violate("read-refused-on-open-half", format!("inc{} read() on stream {} returned ClosedStream; the half exists, no terminal outcome was reported and it was not stopped", inc, v));
                            return;
                        }
                        // expected
                        let (exp_bytes, exp_out, exp_code) = if let Some((c, _)) = h.reset {
                            (0, "reset", c)
                        } else {
                            let avail = h.arrived.prefix_len_from(h.read_pos);
                            let after = h.read_pos + avail;
                            (avail, if h.fin_at == Some(after) { "end" } else { "blocked" }, 0)
                        };
                        if got != exp_bytes || outcome != exp_out || code != exp_code {
                            w.violate("read-result-unexpected", format!("inc{} read on stream {} returned {} bytes then {}({}); the frames accepted so far imply {} bytes then {}({}) [read_pos {} arrived {:?} fin {:?} reset {:?}]", inc, v, got, outcome, code, exp_bytes, exp_out, exp_code, h.read_pos, h.arrived.v, h.fin_at, h.reset));
                            return;
                        }
                        let mh = self.m.get_mut(&inc).unwrap().recv.entry(v).or_default();
                        mh.read_pos += got;
                        if outcome != "blocked" {
                            mh.terminal_seen = true;
                        }
                    }
                    6 => {
                        let c = 1 + w.ch.choose("c11.stop_code", 50) as u64;
                        let r = w.conn_mut(inc).recv_stream(id).stop(VarInt::from_u64(c).unwrap());
                        self.predicted += 1;
                        match (r.is_ok(), gone) {
                            (true, false) => self.m.get_mut(&inc).unwrap().recv.entry(v).or_default().stopped = true,
                            (false, true) => {}
                            _ => {
                                w.violate("stop-result-unexpected", format!("inc{} stop() on stream {} returned ok={}; model: exists={} terminal_seen={} stopped={}", inc, v, r.is_ok(), exists, h.terminal_seen, h.stopped));
                            }
                        }
                    }
                    _ => {
                        let r = w.conn_mut(inc).recv_stream(id).received_reset();
                        self.predicted += 1;
                        match (&r, gone, h.reset) {
                            (Err(_), true, _) => {}
                            (Ok(Some(c)), false, Some((code, _))) if c.into_inner() == code => {
                                self.m.get_mut(&inc).unwrap().recv.entry(v).or_default().terminal_seen = true;
                            }
                            (Ok(None), false, None) => {}
                            _ => {
                                w.violate("received-reset-result-unexpected", format!("inc{} received_reset() on stream {} returned {:?}; model: exists={} terminal_seen={} stopped={} reset={:?}", inc, v, r, exists, h.terminal_seen, h.stopped, h.reset));
                            }
                        }
                    }
                }
            }
            _ => {}
        }
        // concurrency accounting, bounds only
        if w.violations.is_empty() {
            for d in [Dir::Bi, Dir::Uni] {
                let n = w.conn_mut(inc).streams().remote_open_streams(d);
                let m = &self.m[&inc];
                let mut surely_open = 0u64;
                let mut maybe_open = 0u64;
                for idx in 0..m.remote_seen[d as usize] {
                    let v = sid(if side == Side::Client { Side::Server } else { Side::Client }, d, idx);
                    let r = m.recv.get(&v).cloned().unwrap_or_default();
                    let recv_done = r.terminal_seen || (r.stopped && (r.reset.is_some() || r.fin_at.is_some()));
                    let recv_surely_open = !r.terminal_seen && !r.stopped;
                    let (send_done, send_surely_open) = if d == Dir::Bi {
                        let s = m.send.get(&v).cloned().unwrap_or_default();
                        (s.finished || s.reset.is_some(), !s.finished && s.reset.is_none() && s.stop_arrived.is_none())
                    } else {
                        (true, false)
                    };
                    if recv_surely_open || send_surely_open {
                        surely_open += 1;
                    }
                    if !(recv_done && send_done && false) {
                        // (a half that is "done" in the model may still await acknowledgement)
                        maybe_open += 1;
                    }
                }
                if n < surely_open || n > maybe_open {
                    w.violate("remote-open-streams-out-of-bounds", format!("inc{} remote_open_streams({:?}) = {} but between {} and {} remotely initiated streams can be open", inc, d, n, surely_open, maybe_open));
                    return;
                }
            }
        }
    }

    fn on_stream_event(&mut self, w: &mut World, inc: u32, ev: &StreamEvent) {
        self.sync(w);
        let side = w.conns[inc as usize].side;
        let Some(m) = self.m.get_mut(&inc) else { return };
        match ev {
            StreamEvent::Finished { id } => {
                let v = VarInt::from(*id).into_inner();
                let h = m.send.entry(v).or_default();
                h.finished_events += 1;
                if !h.finished {
                    w.violate("finished-without-finish", format!("inc{} Finished({}) but finish() was never called", inc, v));
                } else if h.finished_events > 1 {
                    w.violate("finished-twice", format!("inc{} Finished({}) emitted {} times", inc, v, h.finished_events));
                } else {
                    // every byte and the FIN acknowledged?
                    let mut acked = Ranges::new();
                    let mut fin_acked = false;
                    for (pn, a, b, fin) in &h.sealed {
                        if m.acked_pns.contains(pn) {
                            if b > a {
                                acked.insert(*a, *b);
                            }
                            fin_acked |= *fin;
                        }
                    }
                    let written = h.written;
                    if !(fin_acked && acked.covers_prefix(written)) {
                        w.violate("finished-before-fully-acknowledged", format!("inc{} Finished({}) although the acknowledgements accepted so far cover {:?} of {} bytes (FIN acknowledged: {})", inc, v, acked.v, written, fin_acked));
                    }
                }
            }
            StreamEvent::Stopped { id, error_code } => {
                let v = VarInt::from(*id).into_inner();
                let h = m.send.entry(v).or_default();
                h.stopped_events += 1;
                if h.stopped_events > 1 {
                    w.violate("stopped-twice", format!("inc{} Stopped({}) emitted {} times", inc, v, h.stopped_events));
                } else if h.stop_arrived != Some(error_code.into_inner()) {
                    w.violate("stopped-event-without-stop-sending", format!("inc{} Stopped({}, {}) but the STOP_SENDING accepted for that stream is {:?}", inc, v, error_code, h.stop_arrived));
                }
            }
            StreamEvent::Readable { id } => {
                let v = VarInt::from(*id).into_inner();
                let remote = id.initiator() != side;
                let known = if remote { id.index() < m.remote_seen[id.dir() as usize] } else { id.index() < m.opened[id.dir() as usize] };
                if !known {
                    w.violate("readable-for-unused-stream", format!("inc{} Readable({}) for a stream the peer has not used", inc, v));
                }
            }
            StreamEvent::Opened { dir } => {
                if m.remote_seen[*dir as usize] == 0 {
                    w.violate("opened-for-unused-stream", format!("inc{} Opened({:?}) although the peer has not used any stream of that direction", inc, dir));
                }
            }
            _ => {}
        }
    }
}

impl Scenario for OpScen {
    fn on_incoming(&mut self, w: &mut World, node: u32, incoming: &quinn_proto::Incoming, dgram: u32) -> IncomingAction {
        self.b.on_incoming(w, node, incoming, dgram)
    }
    fn on_accepted(&mut self, w: &mut World, inc: u32, dgram: u32) {
        self.b.on_accepted(w, inc, dgram);
        if let Some(s) = self.b.wl.sides.get_mut(&inc) {
            s.plans.clear();
        }
        if self.server == NO_INC {
            self.server = inc;
            self.m.insert(inc, ConnModel::default());
        }
    }
    fn on_event(&mut self, w: &mut World, inc: u32, ev: Event) {
        if matches!(ev, Event::Connected) {
            self.connected_step.insert(inc, w.step);
        }
        match &ev {
            Event::Stream(se) => self.on_stream_event(w, inc, se),
            // connection-level events keep the bookkeeping of the plan-less workload
            _ => self.b.on_event(w, inc, ev),
        }
    }
    fn on_wake(&mut self, w: &mut World, tag: u64) {
        if tag == TAG_OP {
            if self.ops_left > 0 {
                self.ops_left -= 1;
                let burst = 1 + w.ch.choose("c11.burst", 3);
                for _ in 0..burst {
                    if w.violations.is_empty() {
                        self.one_op(w);
                    }
                }
                let gap: Ns = w.ch.range_log("c11.gap_us", 0, 40_000) * 1000;
                w.wake_in(gap.max(1000), TAG_OP);
            }
        } else {
            self.b.on_wake(w, tag)
        }
    }
    fn after_step(&mut self, w: &mut World) {
        self.b.after_step(w)
    }
    fn done(&self, w: &World) -> bool {
        self.ops_left == 0 && (w.queue.is_empty() || w.now > 60_000 * MS)
    }
}

fn run(ch: Chooser, ctx: &RunCtx, faults: bool) -> RunOut {
    let mut w = World::from_ctx(ch, ctx);
    let mut opts = BasicOpts { n_clients: 1, conns_per_client: 1, ops_max: 0, retry: 0, ..Default::default() };
    opts.idle_off = true;
    opts.allow_corrupt = false;
    opts.allow_dup = false;
    opts.allow_ce = false;
    opts.fault_phase_max_ms = if faults { 1500 } else { 0 };
    opts.server_plans = false;
    let mut sk = crate::cfgs::TKnobs::default();
    let mut ck = crate::cfgs::TKnobs::default();
    for k in [&mut sk, &mut ck] {
        k.stream_window = *w.ch.pick("c11.stream_window", &[1_250_000u64, 100, 2000, 20_000]);
        k.conn_window = *w.ch.pick("c11.conn_window", &[(1u64 << 62) - 1, 500, 5000, 100_000]);
        k.max_bidi = *w.ch.pick("c11.max_bidi", &[100u64, 1, 2, 4]);
        k.max_uni = *w.ch.pick("c11.max_uni", &[100u64, 1, 2, 4]);
        k.send_window = *w.ch.pick("c11.send_window", &[10_000_000u64, 1000, 20_000]);
    }
    opts.fixed_knobs = Some((sk, ck));
    let mut b = Basic::build(&mut w, opts);
    let client = *b.client_incs.first().unwrap_or(&NO_INC);
    if let Some(s) = b.wl.sides.get_mut(&client) {
        s.plans.clear();
    }
    b.wl.unchecked.insert(client);
    let mut m = BTreeMap::new();
    m.insert(client, ConnModel::default());
    let n_ops = 20 + w.ch.range("c11.n_ops", 0, 120) as u32;
    let mut sc = OpScen { b, pk_seen: 0, m, client, server: NO_INC, ops_left: n_ops, ops_done: 0, predicted: 0, connected_step: BTreeMap::new() };
    let start = *w.ch.pick("c11.start_ms", &[30u64, 5, 200, 1300]) * MS;
    w.wake_at(start, TAG_OP);
    w.run(&mut sc);
    if w.violations.is_empty() {
        for c in &w.conns {
            if let Some(r) = c.lost.first() {
                let (k, d) = ("unexpected-connection-loss".to_string(), format!("inc{} lost: {}", c.inc, r));
                w.violate(k, d);
                break;
            }
        }
    }
    let mut o = RunOut::from_world(&mut w);
    o.stats.insert("ops", sc.ops_done as f64);
    o.stats.insert("ops_with_prediction", sc.predicted as f64);
    o.config = format!("faults={} n_ops={} server={:?} client={:?} net={:?}", faults, n_ops, sc.b.server_knobs, sc.b.client_knobs, w.net);
    o
}

fn fam_clean(ch: Chooser, ctx: &RunCtx) -> RunOut {
    run(ch, ctx, false)
}
fn fam_lossy(ch: Chooser, ctx: &RunCtx) -> RunOut {
    run(ch, ctx, true)
}

pub fn spec() -> PropSpec {
    PropSpec {
        id: "C11",
        families: vec![Family { name: "clean", f: fam_clean, weight: 40 }, Family { name: "lossy", f: fam_lossy, weight: 60 }],
        quick_worlds: 300_000,
        thorough_worlds: 4_500_000,
        panic_is_violation: true,
        rule: "each world = 20-140 drawn stream operations (open, write, finish, reset, stop, read with drawn maximum chunk length, accept, stopped, received_reset, set_priority) by both applications on known and unknown stream ids of both directions and both initiators, at drawn instants, while the network delays, loses and reorders packets (no duplication), under drawn stream / connection windows and stream limits; every result is compared with a reference model fed by the operations issued and the frames each connection has accepted; non-trivial = a fault fired or an operation had a prediction; distinct = distinct abstract-event signature",
        assumptions: vec![
            "seeded sampling of operation sequences, not exhaustive enumeration up to a bound (that would be model checking)",
            "which frames a connection has accepted is read from the tap's acceptance ledger; duplication is off because which copy the duplicate filter admits is not observable",
            "'fully acknowledged' is not tracked for forgetting streams: after finish() or reset() both ClosedStream and the pre-acknowledgement answer are accepted where they differ (reset after finish, stopped after finish)",
            "remote_open_streams is bounded between the streams that are certainly still open and those not certainly closed",
        ],
        real: super::REAL.to_vec(),
        stub: super::STUB.to_vec(),
    }
}
