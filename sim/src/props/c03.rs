//! C03 — peer-controlled input never crashes or hangs an endpoint.
//!
//! Three attack surfaces, all against an *unmodified* victim: (a) arbitrary bytes into
//! `Endpoint::handle`; (b) arbitrary correctly protected frames: the attacker is a real quinn
//! connection whose outgoing plaintext is overwritten by the crypto tap just before sealing; (c)
//! hostile-but-well-formed transport parameters announced through the real TLS session.

use std::collections::BTreeMap;

use quinn_proto::{ConnectionError, Event, Side};

use crate::chooser::Chooser;
use crate::runner::{Family, PropSpec, RunCtx, RunOut};
use crate::scen::{Basic, BasicOpts, TAG_USER};
use crate::tap::NO_INC;
use crate::wire::{self, put_var, put_var_len, Frame, Space};
use crate::world::{IncomingAction, Scenario, World, MS, NO_NODE};

const TAG_ATTACK: u64 = TAG_USER + (7 << 30);

fn v(out: &mut Vec<u8>, x: u64) {
    put_var(out, x.min((1 << 62) - 1));
}

/// boundary-biased integer
fn bnd(w: &mut World, around: &[u64]) -> u64 {
    let base = *w.ch.pick("c03.bnd.base", around);
    match w.ch.weighted("c03.bnd.how", &[3, 2, 2, 1, 1, 1]) {
        0 => base,
        1 => base.saturating_add(1),
        2 => base.saturating_sub(1),
        3 => (1 << 62) - 1,
        4 => w.ch.range_log("c03.bnd.rand", 0, u32::MAX as u64 - 1),
        _ => 0,
    }
}

fn stream_id(w: &mut World) -> u64 {
    // every kind and initiator, low indices, limit-ish indices and far-future ones
    let ty = w.ch.choose("c03.sid.type", 4) as u64;
    let idx = bnd(w, &[0, 1, 2, 3, 8, 99, 100, 101, 1 << 20, (1 << 60) - 1]);
    (idx.min((1 << 60) - 1) << 2) | ty
}

/// one random frame (possibly malformed), appended to `out`
fn gen_frame(w: &mut World, out: &mut Vec<u8>) {
    let k = w.ch.choose("c03.frame.kind", 30);
    match k {
        0 => out.push(0x01),
        1 => {
            // ACK / ACK_ECN with ranges around plausible packet numbers
            let ecn = w.ch.chance("c03.ack.ecn", 1, 3);
            out.push(if ecn { 0x03 } else { 0x02 });
            if w.ch.chance("c03.ack.arith", 1, 2) {
                // range arithmetic walked down deliberately: each further range ends exactly at,
                // one below, or two below packet number zero, or somewhere valid
                let largest = bnd(w, &[1, 0, 2, 5, 20, 100]);
                v(out, largest);
                v(out, 0);
                let n = 1 + w.ch.range_log("c03.ack.arith.blocks", 0, 6);
                v(out, n);
                let first = match w.ch.choose("c03.ack.arith.first", 4) {
                    0 => 0,
                    1 => largest,
                    2 => largest.saturating_add(1),
                    _ => w.ch.range("c03.ack.arith.first_v", 0, largest),
                };
                v(out, first);
                let mut smallest = largest as i128 - first as i128;
                for _ in 0..n {
                    // next range's largest = smallest - gap - 2
                    let target: i128 = match w.ch.choose("c03.ack.arith.target", 5) {
                        0 => 0,
                        1 => -1,
                        2 => -2,
                        3 => smallest - 2,
                        _ => (smallest - 2) / 2,
                    };
                    let gap = (smallest - 2 - target).max(0) as u64;
                    v(out, gap);
                    let next_largest = smallest - gap as i128 - 2;
                    let len = match w.ch.choose("c03.ack.arith.len", 4) {
                        0 => 0,
                        1 => next_largest.max(0) as u64,
                        2 => (next_largest.max(0) as u64).saturating_add(1),
                        _ => 1,
                    };
                    v(out, len);
                    smallest = next_largest - len as i128;
                }
                if ecn {
                    for _ in 0..3 {
                        v(out, bnd(w, &[0, 1, 1 << 30]));
                    }
                }
                return;
            }
            let largest = bnd(w, &[0, 1, 5, 20, 100, 1 << 20, 1 << 40]);
            v(out, largest);
            v(out, bnd(w, &[0, 25, 1 << 20, (1 << 62) - 1]));
            let n = w.ch.range_log("c03.ack.blocks", 0, 40);
            v(out, n);
            v(out, bnd(w, &[0, 1, largest, largest.saturating_add(1)]));
            for _ in 0..n {
                v(out, bnd(w, &[0, 1, 3, 1 << 30]));
                v(out, bnd(w, &[0, 1, 3, 1 << 30]));
            }
            if ecn {
                for _ in 0..3 {
                    v(out, bnd(w, &[0, 1, 1 << 30]));
                }
            }
        }
        2 => {
            out.push(0x04);
            v(out, stream_id(w));
            v(out, bnd(w, &[0, 7]));
            v(out, bnd(w, &[0, 1, 100, 1200, 1 << 20]));
        }
        3 => {
            out.push(0x05);
            v(out, stream_id(w));
            v(out, bnd(w, &[0, 7]));
        }
        4 => {
            out.push(0x06);
            v(out, bnd(w, &[0, 1, 100, 16_384, 1 << 30]));
            let l = w.ch.range_log("c03.crypto.len", 0, 64);
            v(out, l);
            for _ in 0..l {
                out.push(0x16);
            }
        }
        5 => {
            out.push(0x07);
            let l = w.ch.range_log("c03.token.len", 0, 64);
            v(out, l);
            for i in 0..l {
                out.push(i as u8);
            }
        }
        6..=9 => {
            // STREAM in all 8 encodings
            let bits = w.ch.choose("c03.stream.bits", 8) as u8;
            out.push(0x08 | bits);
            v(out, stream_id(w));
            if bits & 4 != 0 {
                v(out, bnd(w, &[0, 1, 100, 1200, 65_536, 1 << 30, (1 << 62) - 20]));
            }
            let l = w.ch.range_log("c03.stream.len", 0, 40);
            if bits & 2 != 0 {
                v(out, l);
            }
            for i in 0..l {
                out.push(0xA0 | (i as u8 & 0xf));
            }
        }
        10 => {
            out.push(0x10);
            v(out, bnd(w, &[0, 1, 1 << 20]));
        }
        11 => {
            out.push(0x11);
            v(out, stream_id(w));
            v(out, bnd(w, &[0, 1, 1 << 20]));
        }
        12 => {
            out.push(if w.ch.chance("c03.maxstreams.uni", 1, 2) { 0x13 } else { 0x12 });
            v(out, bnd(w, &[0, 1, 100, 1 << 60, (1 << 60) + 1]));
        }
        13 => {
            out.push(0x14);
            v(out, bnd(w, &[0, 1 << 20]));
        }
        14 => {
            out.push(0x15);
            v(out, stream_id(w));
            v(out, bnd(w, &[0, 1 << 20]));
        }
        15 => {
            out.push(if w.ch.chance("c03.sblocked.uni", 1, 2) { 0x17 } else { 0x16 });
            v(out, bnd(w, &[0, 100, 1 << 60, (1 << 60) + 1]));
        }
        16 | 17 => {
            // NEW_CONNECTION_ID
            out.push(0x18);
            let seq = bnd(w, &[0, 1, 2, 5, 8, 9, 100, 1 << 30]);
            v(out, seq);
            v(out, bnd(w, &[0, 1, seq, seq.saturating_add(1)]));
            let l = *w.ch.pick("c03.ncid.len", &[8u8, 0, 1, 20, 21, 255]);
            out.push(l);
            for i in 0..l.min(24) {
                out.push(i ^ (seq as u8));
            }
            for i in 0..16 {
                out.push(0xC0 | i);
            }
        }
        18 => {
            out.push(0x19);
            v(out, bnd(w, &[0, 1, 2, 5, 8, 100, 1 << 30]));
        }
        19 => {
            out.push(if w.ch.chance("c03.path.resp", 1, 2) { 0x1b } else { 0x1a });
            for i in 0..8 {
                out.push(0x50 + i);
            }
        }
        20 => {
            out.push(0x1c);
            v(out, bnd(w, &[0, 0xa, 0x100, 0x1ff]));
            v(out, bnd(w, &[0, 6, 1 << 30]));
            let l = w.ch.range_log("c03.close.len", 0, 40);
            v(out, l);
            for _ in 0..l {
                out.push(b'x');
            }
        }
        21 => {
            out.push(0x1d);
            v(out, bnd(w, &[0, 42]));
            v(out, 0);
        }
        22 => out.push(0x1e),
        23 => out.push(0x1f),
        24 => {
            // ACK_FREQUENCY (0xaf as 2-byte varint)
            put_var_len(out, 0xaf, 2);
            v(out, bnd(w, &[0, 1, 5]));
            v(out, bnd(w, &[0, 1, 2, 1 << 30]));
            v(out, bnd(w, &[0, 1, 999, 25_000, 1 << 24, (1 << 62) - 1]));
            v(out, bnd(w, &[0, 1, 3, 1 << 30]));
        }
        25 | 26 => {
            let with_len = w.ch.chance("c03.dgram.len", 1, 2);
            out.push(if with_len { 0x31 } else { 0x30 });
            let l = w.ch.range_log("c03.dgram.size", 0, 100);
            if with_len {
                v(out, bnd(w, &[l, l + 1, 0, 1 << 20]));
            }
            for _ in 0..l {
                out.push(0xDD);
            }
        }
        27 => {
            // unknown frame types
            let t = *w.ch.pick("c03.unknown", &[0x20u64, 0x2f, 0x32, 0x40, 0xae, 0xb0, 0x1234, 0x3fff_ffff]);
            v(out, t);
        }
        28 => {
            // non-minimal / odd encodings of a known type
            put_var_len(out, 0x01, *w.ch.pick("c03.nonmin", &[2usize, 4, 8]));
        }
        _ => {
            // truncated tail: a length that runs past the packet
            out.push(0x0a);
            v(out, stream_id(w));
            v(out, 1 << 20);
        }
    }
}

#[derive(Clone, Debug)]
struct Targeted {
    name: &'static str,
    /// written into an Initial packet of the attacker instead of into a 1-RTT packet
    handshake_space: bool,
    /// no frames at all: set these (reserved) bits in the first byte of the packet header
    header_or: u8,
    frames: Vec<u8>,
    /// admissible transport error codes on the victim
    codes: Vec<u64>,
}

/// Cases RFC 9000 pins down. The victim is the server (attacker = client) or, in "hostile
/// server" worlds, the client.
fn targeted_cases(victim_is_server: bool, victim_max_bidi: u64, attacker_cid_len: usize) -> Vec<Targeted> {
    use wire::code::*;
    let mut c = Vec::new();
    let mut f = Vec::new();
    let vs = victim_is_server;
    // unidirectional stream 0 of either side, and stream ids by initiator
    let victim_uni0: u64 = if vs { 3 } else { 2 };
    let attacker_uni0: u64 = if vs { 2 } else { 3 };
    let attacker_bidi = |idx: u64| (idx << 2) | if vs { 0 } else { 1 };
    let victim_bidi = |idx: u64| (idx << 2) | if vs { 1 } else { 0 };
    let victim_uni = |idx: u64| (idx << 2) | if vs { 3 } else { 2 };
    // STREAM on a server-initiated unidirectional stream (send-only for the server)
    f.extend_from_slice(&[0x0a]);
    put_var(&mut f, victim_uni0);
    put_var(&mut f, 1);
    f.push(b'x');
    c.push(Targeted { handshake_space: false, header_or: 0, name: "stream-on-send-only", frames: f.clone(), codes: vec![STREAM_STATE_ERROR] });
    // STREAM beyond the advertised stream count
    f.clear();
    f.push(0x0a);
    put_var(&mut f, attacker_bidi(victim_max_bidi + 5));
    put_var(&mut f, 1);
    f.push(b'x');
    c.push(Targeted { handshake_space: false, header_or: 0, name: "stream-beyond-stream-limit", frames: f.clone(), codes: vec![STREAM_LIMIT_ERROR] });
    // MAX_STREAM_DATA on a receive-only stream (client-initiated uni, as seen by the server)
    f.clear();
    f.push(0x11);
    put_var(&mut f, attacker_uni0);
    put_var(&mut f, 1000);
    c.push(Targeted { handshake_space: false, header_or: 0, name: "max-stream-data-on-recv-only", frames: f.clone(), codes: vec![STREAM_STATE_ERROR] });
    // STOP_SENDING on a receive-only stream
    f.clear();
    f.push(0x05);
    put_var(&mut f, attacker_uni0);
    put_var(&mut f, 1);
    c.push(Targeted { handshake_space: false, header_or: 0, name: "stop-sending-on-recv-only", frames: f.clone(), codes: vec![STREAM_STATE_ERROR] });
    // RESET_STREAM on a send-only stream
    f.clear();
    f.push(0x04);
    put_var(&mut f, victim_uni0);
    put_var(&mut f, 1);
    put_var(&mut f, 0);
    c.push(Targeted { handshake_space: false, header_or: 0, name: "reset-on-send-only", frames: f.clone(), codes: vec![STREAM_STATE_ERROR] });
    // MAX_STREAMS above 2^60
    f.clear();
    f.push(0x12);
    put_var(&mut f, (1 << 60) + 1);
    c.push(Targeted { handshake_space: false, header_or: 0, name: "max-streams-too-large", frames: f.clone(), codes: vec![FRAME_ENCODING_ERROR, STREAM_LIMIT_ERROR] });
    // unknown frame type
    f.clear();
    put_var(&mut f, 0x40);
    c.push(Targeted { handshake_space: false, header_or: 0, name: "unknown-frame-type", frames: f.clone(), codes: vec![FRAME_ENCODING_ERROR] });
    if vs {
        // HANDSHAKE_DONE from a client
        c.push(Targeted { handshake_space: false, header_or: 0, name: "handshake-done-from-client", frames: vec![0x1e], codes: vec![PROTOCOL_VIOLATION] });
        // NEW_TOKEN from a client
        c.push(Targeted { handshake_space: false, header_or: 0, name: "new-token-from-client", frames: vec![0x07, 0x02, 1, 2], codes: vec![PROTOCOL_VIOLATION] });
    } else {
        // NEW_TOKEN with an empty token (§19.7)
        c.push(Targeted { handshake_space: false, header_or: 0, name: "new-token-empty", frames: vec![0x07, 0x00], codes: vec![FRAME_ENCODING_ERROR] });
    }
    // ACK of a packet that was never sent
    f.clear();
    f.push(0x02);
    put_var(&mut f, 1 << 40);
    put_var(&mut f, 0);
    put_var(&mut f, 0);
    put_var(&mut f, 0);
    c.push(Targeted { handshake_space: false, header_or: 0, name: "ack-of-unsent-packet", frames: f.clone(), codes: vec![PROTOCOL_VIOLATION] });
    // ACK whose second range would end one / two below packet number zero
    for (name, gap) in [("ack-range-one-below-zero", 0u64), ("ack-range-two-below-zero", 1u64)] {
        f.clear();
        f.push(0x02);
        put_var(&mut f, 1); // largest
        put_var(&mut f, 0); // delay
        put_var(&mut f, 1); // one additional range
        put_var(&mut f, 0); // first range: just packet 1
        put_var(&mut f, gap);
        put_var(&mut f, 0);
        c.push(Targeted { handshake_space: false, header_or: 0, name, frames: f.clone(), codes: vec![FRAME_ENCODING_ERROR] });
    }
    // RETIRE_CONNECTION_ID for a sequence number never issued
    f.clear();
    f.push(0x19);
    put_var(&mut f, 1 << 30);
    c.push(Targeted { handshake_space: false, header_or: 0, name: "retire-unissued-cid", frames: f.clone(), codes: vec![PROTOCOL_VIOLATION] });
    // NEW_CONNECTION_ID with retire_prior_to > sequence
    f.clear();
    f.push(0x18);
    put_var(&mut f, 3);
    put_var(&mut f, 4);
    f.push(8);
    f.extend_from_slice(&[9; 8]);
    f.extend_from_slice(&[7; 16]);
    c.push(Targeted { handshake_space: false, header_or: 0, name: "new-cid-retire-prior-to-above-seq", frames: f.clone(), codes: vec![FRAME_ENCODING_ERROR, PROTOCOL_VIOLATION] });
    // truncated STREAM frame: length runs past the end of the packet — needs the frame to be last,
    // so it is padded *before*, not after (handled by the injector: `tail`)
    // two different final sizes
    // (on a stream the honest workload never touches: client-initiated bidi stream 50)
    f.clear();
    f.push(0x0f);
    put_var(&mut f, attacker_bidi(50));
    put_var(&mut f, 10);
    put_var(&mut f, 1);
    f.push(b'a');
    f.push(0x0f);
    put_var(&mut f, attacker_bidi(50));
    put_var(&mut f, 20);
    put_var(&mut f, 1);
    f.push(b'b');
    c.push(Targeted { handshake_space: false, header_or: 0, name: "two-final-sizes", frames: f.clone(), codes: vec![FINAL_SIZE_ERROR] });
    // frames for streams the victim would have to open itself and has not (server-initiated
    // bidirectional / unidirectional stream 50): RFC 9000 §19.8, §19.10, §19.5
    let unopened_bi = victim_bidi(50);
    let unopened_uni = victim_uni(50);
    f.clear();
    f.push(0x0a);
    put_var(&mut f, unopened_bi);
    put_var(&mut f, 1);
    f.push(b'x');
    c.push(Targeted { handshake_space: false, header_or: 0, name: "stream-on-unopened-local-stream", frames: f.clone(), codes: vec![STREAM_STATE_ERROR] });
    for (name, id) in [("max-stream-data-on-unopened-local-bidi", unopened_bi), ("max-stream-data-on-unopened-local-uni", unopened_uni)] {
        f.clear();
        f.push(0x11);
        put_var(&mut f, id);
        put_var(&mut f, 100_000);
        c.push(Targeted { handshake_space: false, header_or: 0, name, frames: f.clone(), codes: vec![STREAM_STATE_ERROR] });
    }
    for (name, id) in [("stop-sending-on-unopened-local-bidi", unopened_bi), ("stop-sending-on-unopened-local-uni", unopened_uni)] {
        f.clear();
        f.push(0x05);
        put_var(&mut f, id);
        put_var(&mut f, 7);
        c.push(Targeted { handshake_space: false, header_or: 0, name, frames: f.clone(), codes: vec![STREAM_STATE_ERROR] });
    }
    // STREAM_DATA_BLOCKED on a stream the victim only sends on (§19.13)
    f.clear();
    f.push(0x15);
    put_var(&mut f, victim_uni0);
    put_var(&mut f, 10);
    c.push(Targeted { handshake_space: false, header_or: 0, name: "stream-data-blocked-on-send-only", frames: f.clone(), codes: vec![STREAM_STATE_ERROR] });
    // STREAMS_BLOCKED above 2^60 (§19.14)
    for (name, ty) in [("streams-blocked-bidi-too-large", 0x16u8), ("streams-blocked-uni-too-large", 0x17)] {
        f.clear();
        f.push(ty);
        put_var(&mut f, (1 << 60) + 1);
        c.push(Targeted { handshake_space: false, header_or: 0, name, frames: f.clone(), codes: vec![FRAME_ENCODING_ERROR, STREAM_LIMIT_ERROR] });
    }
    // NEW_CONNECTION_ID with an impossible length (§19.15)
    for (name, len) in [("new-cid-length-zero", 0u8), ("new-cid-length-21", 21)] {
        f.clear();
        f.push(0x18);
        put_var(&mut f, 6);
        put_var(&mut f, 0);
        f.push(len);
        f.extend_from_slice(&vec![9; len as usize]);
        f.extend_from_slice(&[7; 16]);
        c.push(Targeted { handshake_space: false, header_or: 0, name, frames: f.clone(), codes: vec![FRAME_ENCODING_ERROR] });
    }
    // more connection IDs than the victim's active_connection_id_limit allows (§5.1.1) — or any
    // at all while the victim addresses the attacker with a zero-length ID (§19.15)
    f.clear();
    for seq in 20u64..32 {
        f.push(0x18);
        put_var(&mut f, seq);
        put_var(&mut f, 0);
        f.push(8);
        f.extend_from_slice(&[0xC0 | seq as u8; 8]);
        f.extend_from_slice(&[seq as u8; 16]);
    }
    c.push(Targeted { handshake_space: false, header_or: 0, name: "new-cid-beyond-active-limit", frames: f.clone(), codes: vec![if attacker_cid_len == 0 { PROTOCOL_VIOLATION } else { CONNECTION_ID_LIMIT_ERROR }] });
    // offsets past 2^62-1 (§19.6, §19.8)
    f.clear();
    f.push(0x06);
    put_var(&mut f, (1 << 62) - 1);
    put_var(&mut f, 2);
    f.extend_from_slice(b"xy");
    c.push(Targeted { handshake_space: false, header_or: 0, name: "crypto-offset-overflow", frames: f.clone(), codes: vec![FRAME_ENCODING_ERROR, CRYPTO_BUFFER_EXCEEDED] });
    f.clear();
    f.push(0x0e);
    put_var(&mut f, attacker_bidi(50));
    put_var(&mut f, (1 << 62) - 1);
    put_var(&mut f, 2);
    f.extend_from_slice(b"xy");
    c.push(Targeted { handshake_space: false, header_or: 0, name: "stream-offset-overflow", frames: f.clone(), codes: vec![FRAME_ENCODING_ERROR, FLOW_CONTROL_ERROR] });
    // RESET_STREAM whose final size lies beyond every limit the victim advertised (§4.5)
    f.clear();
    f.push(0x04);
    put_var(&mut f, attacker_bidi(50));
    put_var(&mut f, 1);
    put_var(&mut f, (1 << 62) - 1);
    c.push(Targeted { handshake_space: false, header_or: 0, name: "reset-final-size-beyond-limits", frames: f.clone(), codes: vec![FLOW_CONTROL_ERROR] });
    // frame types that Initial and Handshake packets must not carry (§12.4, Table 3)
    let hs: [(&'static str, Vec<u8>); 7] = [
        ("stream-frame-in-handshake-space", {
            let mut f = vec![0x0a];
            put_var(&mut f, attacker_bidi(0));
            put_var(&mut f, 1);
            f.push(b'x');
            f
        }),
        ("max-data-in-handshake-space", {
            let mut f = vec![0x10];
            put_var(&mut f, 100_000);
            f
        }),
        ("new-cid-in-handshake-space", {
            let mut f = vec![0x18];
            put_var(&mut f, 1);
            put_var(&mut f, 0);
            f.push(8);
            f.extend_from_slice(&[0xAB; 8]);
            f.extend_from_slice(&[0xCD; 16]);
            f
        }),
        ("handshake-done-in-handshake-space", vec![0x1e]),
        ("path-challenge-in-handshake-space", vec![0x1a, 1, 2, 3, 4, 5, 6, 7, 8]),
        ("new-token-in-handshake-space", vec![0x07, 0x02, 1, 2]),
        ("application-close-in-handshake-space", vec![0x1d, 0x07, 0x00]),
    ];
    // reserved header bits (§17.2, §17.3.1): checked after removing header protection
    for (name, mask) in [("reserved-bits-short-header-0x08", 0x08u8), ("reserved-bits-short-header-0x10", 0x10), ("reserved-bits-short-header-0x18", 0x18)] {
        c.push(Targeted { handshake_space: false, header_or: mask, name, frames: Vec::new(), codes: vec![PROTOCOL_VIOLATION] });
    }
    for (name, mask) in [("reserved-bits-long-header-0x04", 0x04u8), ("reserved-bits-long-header-0x08", 0x08), ("reserved-bits-long-header-0x0c", 0x0c)] {
        c.push(Targeted { handshake_space: true, header_or: mask, name, frames: Vec::new(), codes: vec![PROTOCOL_VIOLATION] });
    }
    for (name, frames) in hs {
        c.push(Targeted { handshake_space: true, header_or: 0, name, frames, codes: vec![PROTOCOL_VIOLATION] });
    }
    c
}

pub struct C03Scen {
    b: Basic,
    mode: u32,
    attacker_inc: u32,
    victim_inc: u32,
    /// the client connection of the attacked pair (what the workload's `unchecked` set and the
    /// pairing are keyed by), whichever of the two ends is the attacker
    pair_key: u32,
    /// targeted worlds: the *server* end of the pair is the attacker, the client the victim
    hostile_server: bool,
    attacks: u32,
    targeted: Option<Targeted>,
    targeted_sent_at: Option<u64>,
    /// the victim endpoint refused to create a connection for the attacker's datagram
    accept_failed: Option<ConnectionError>,
    flood_kind: u32,
    flood_packets: u32,
    pub base_live: i64,
    pub peak_growth: i64,
    last_attack_at: u64,
}

impl C03Scen {
    fn inject_handshake_space_case(&mut self, w: &mut World) {
        if self.attacker_inc == NO_INC || self.targeted_sent_at.is_some() {
            return;
        }
        let t = self.targeted.clone().unwrap();
        // an attacking client overlays the padding of its next Initial; an attacking server's
        // padding sits in the 0.5-RTT packet that ends its first datagram, so it gives up the
        // contents of its Initial packet instead (the victim must reject that packet whatever
        // else the datagram holds)
        let overlay = !self.hostile_server;
        if t.header_or != 0 {
            w.tap.lock().unwrap().header_or.insert((self.attacker_inc, Space::Initial), t.header_or);
        } else {
            self.inject(w, Space::Initial, t.frames, overlay);
        }
        self.targeted_sent_at = Some(w.now);
        w.faults.hit("inject_targeted_handshake_space");
        self.attacks = 1000;
    }

    fn attacker_ready(&self, w: &World) -> bool {
        self.attacker_inc != NO_INC && self.b.wl.sides.get(&self.attacker_inc).is_some_and(|s| s.connected) && !w.conns[self.attacker_inc as usize].conn.is_closed()
    }

    fn inject(&mut self, w: &mut World, space: Space, bytes: Vec<u8>, overlay: bool) {
        let mut t = w.tap.lock().unwrap();
        t.inject.entry((self.attacker_inc, space)).or_default().push_back((bytes, overlay));
    }

    fn attack_step(&mut self, w: &mut World) {
        match self.mode {
            // authenticated frame sequences
            0 => {
                if !self.attacker_ready(w) {
                    // during the handshake: overlay a few frames onto padded Initial/Handshake
                    // packets of the attacker (the handshake itself continues)
                    if self.attacker_inc != NO_INC && w.ch.chance("c03.hs.inject", 1, 3) {
                        let mut f = Vec::new();
                        let n = 1 + w.ch.choose("c03.hs.n", 4);
                        for _ in 0..n {
                            gen_frame(w, &mut f);
                        }
                        let space = if w.ch.chance("c03.hs.space", 1, 2) { Space::Initial } else { Space::Handshake };
                        self.inject(w, space, f, true);
                        w.faults.hit("inject_frames_handshake_space");
                    }
                    return;
                }
                let n = 1 + w.ch.range_log("c03.frames.n", 0, 60);
                let mut f = Vec::new();
                for _ in 0..n {
                    gen_frame(w, &mut f);
                    if f.len() > 1000 {
                        break;
                    }
                }
                let overlay = w.ch.chance("c03.frames.overlay", 1, 3);
                self.inject(w, Space::OneRtt, f, overlay);
                w.conn_mut(self.attacker_inc).ping();
                w.faults.hit("inject_frames_1rtt");
            }
            // one targeted violation, exact error class expected
            1 if self.targeted.as_ref().is_some_and(|t| t.handshake_space) => {
                self.inject_handshake_space_case(w);
                return;
            }
            1 => {
                if self.attacker_ready(w) && self.targeted_sent_at.is_none() && self.b.wl.sides.get(&self.victim_inc).is_some_and(|s| s.connected) {
                    let t = self.targeted.clone().unwrap();
                    if t.header_or != 0 {
                        w.tap.lock().unwrap().header_or.insert((self.attacker_inc, Space::OneRtt), t.header_or);
                    } else {
                        self.inject(w, Space::OneRtt, t.frames, false);
                    }
                    w.conn_mut(self.attacker_inc).ping();
                    self.targeted_sent_at = Some(w.now);
                    w.faults.hit("inject_targeted");
                    self.attacks = 1000;
                }
                return;
            }
            // floods
            3 => {
                if !self.attacker_ready(w) {
                    return;
                }
                for _ in 0..8 {
                    let mut f = Vec::new();
                    let mut i = (self.flood_packets as u64) * 400;
                    while f.len() < 1050 {
                        i += 1;
                        match self.flood_kind {
                            0 => {
                                f.push(0x1a);
                                f.extend_from_slice(&i.to_be_bytes());
                            }
                            1 => {
                                f.push(0x12);
                                put_var(&mut f, 100 + (i % 50));
                            }
                            2 => {
                                // 1-byte stream fragments with gaps
                                f.push(0x0e);
                                put_var(&mut f, 0);
                                put_var(&mut f, (i * 2) % 60_000);
                                put_var(&mut f, 1);
                                f.push(b'z');
                            }
                            3 => {
                                f.push(0x19);
                                put_var(&mut f, i % 3);
                            }
                            4 => {
                                f.push(0x31);
                                put_var(&mut f, 1);
                                f.push(b'd');
                            }
                            5 => {
                                f.push(0x14);
                                put_var(&mut f, i);
                            }
                            _ => {
                                f.push(0x01);
                            }
                        }
                    }
                    self.inject(w, Space::OneRtt, f, false);
                    self.flood_packets += 1;
                }
                w.conn_mut(self.attacker_inc).ping();
                w.faults.hit("inject_flood");
            }
            _ => {}
        }
        self.attacks += 1;
    }

    /// arbitrary bytes / mutated genuine datagrams into the victim endpoint
    fn garbage_step(&mut self, w: &mut World) {
        let victim_addr = self.b.server_addr;
        // (only datagrams addressed to the victim endpoint: a forged Version Negotiation packet
        // towards a fresh client may legitimately end it, which is C04's subject, not a crash)
        let cands: Vec<u32> = w.dgrams.iter().filter(|d| d.genuine && d.origin_node != NO_NODE && !d.bytes.is_empty() && d.dst == victim_addr).map(|d| d.id).collect();
        let kind = w.ch.weighted("c03.garbage.kind", &[3, 2, 2, 2, 1]);
        let (src, dst, bytes): (std::net::SocketAddr, std::net::SocketAddr, Vec<u8>) = match kind {
            0 if !cands.is_empty() => {
                // structure-aware mutation of a genuine datagram (including header structure)
                let id = cands[w.ch.choose("c03.garbage.pick", cands.len() as u32) as usize];
                let d = w.dgrams[id as usize].clone();
                let mut b = d.bytes.clone();
                // keep the cleartext header of the first packet, replace everything behind it
                // (ciphertext, which is randomised by TLS) with harness-chosen bytes: none of it
                // can authenticate anyway, and the world stays exactly replayable
                let keep = match wire::public_header(&b, w.nodes[self.b.server as usize].cid_len) {
                    Ok(wire::PublicHeader::Long { pn_offset, .. }) => pn_offset.min(b.len()),
                    Ok(wire::PublicHeader::Short { .. }) => (1 + w.nodes[self.b.server as usize].cid_len).min(b.len()),
                    _ => b.len().min(7),
                };
                let mut fill = vec![0u8; b.len() - keep];
                w.ch.bytes("c03.garbage.fill", &mut fill);
                b[keep..].copy_from_slice(&fill);
                // (header protection covers the low bits of the first byte: make them ours as well)
                b[0] = (b[0] & 0xf0) | (w.ch.choose("c03.garbage.lowbits", 16) as u8);
                let n = 1 + w.ch.range_log("c03.garbage.nmut", 0, 6);
                for _ in 0..n {
                    if b.is_empty() {
                        break;
                    }
                    let pos = if w.ch.chance("c03.garbage.hdr", 2, 3) { w.ch.range("c03.garbage.pos_h", 0, (b.len() as u64 - 1).min(60)) } else { w.ch.range("c03.garbage.pos", 0, b.len() as u64 - 1) } as usize;
                    match w.ch.choose("c03.garbage.op", 5) {
                        0 => b[pos] ^= 1 << w.ch.choose("c03.garbage.bit", 8),
                        1 => b[pos] = *w.ch.pick("c03.garbage.val", &[0u8, 1, 0x3f, 0x40, 0x7f, 0x80, 0xc0, 0xff, 20, 21]),
                        2 => b.truncate(pos),
                        3 => {
                            let extra = w.ch.range_log("c03.garbage.ins", 1, 40) as usize;
                            let mut ins = vec![0u8; extra];
                            w.ch.bytes("c03.garbage.insb", &mut ins);
                            let tail = b.split_off(pos);
                            b.extend_from_slice(&ins);
                            b.extend_from_slice(&tail);
                        }
                        _ => {
                            // splice another genuine datagram behind (coalescing garbage)
                            let id2 = cands[w.ch.choose("c03.garbage.pick2", cands.len() as u32) as usize];
                            let o = w.dgrams[id2 as usize].bytes.clone();
                            let k2 = match wire::public_header(&o, w.nodes[self.b.server as usize].cid_len) {
                                Ok(wire::PublicHeader::Long { pn_offset, .. }) => pn_offset.min(o.len()),
                                _ => (1 + w.nodes[self.b.server as usize].cid_len).min(o.len()),
                            };
                            b.extend_from_slice(&o[..k2]);
                            let mut tail = vec![0u8; o.len() - k2];
                            w.ch.bytes("c03.garbage.fill2", &mut tail);
                            b.extend_from_slice(&tail);
                        }
                    }
                }
                (d.src, d.dst, b)
            }
            1 => {
                // long header with chosen odd fields
                let mut b = vec![0xc0 | w.ch.choose("c03.lh.first", 64) as u8];
                let ver = *w.ch.pick("c03.lh.version", &[1u32, 0, 0x0a0a0a0a, 0xff00001d, 0x6b3343cf, u32::MAX]);
                b.extend_from_slice(&ver.to_be_bytes());
                let dl = *w.ch.pick("c03.lh.dl", &[8u8, 0, 1, 20, 21, 255]);
                b.push(dl);
                for i in 0..dl.min(30) {
                    b.push(i);
                }
                let sl = *w.ch.pick("c03.lh.sl", &[8u8, 0, 20, 21, 255]);
                b.push(sl);
                for i in 0..sl.min(30) {
                    b.push(0x80 | i);
                }
                put_var(&mut b, *w.ch.pick("c03.lh.toklen", &[0u64, 1, 50, 1 << 20, (1 << 62) - 1]));
                put_var(&mut b, *w.ch.pick("c03.lh.len", &[1100u64, 0, 1, 4, 20, 1 << 20, (1 << 62) - 1]));
                let total = *w.ch.pick("c03.lh.total", &[1200usize, 30, 100, 1199, 1201, 1500]);
                while b.len() < total {
                    b.push((b.len() % 251) as u8);
                }
                (crate::cfgs::addr(50, 7), victim_addr, b)
            }
            2 => {
                let len = *w.ch.pick("c03.rand.len", &[40usize, 0, 1, 5, 16, 20, 21, 22, 100, 1200, 1500]);
                let mut b = vec![0u8; len];
                w.ch.bytes("c03.rand.bytes", &mut b);
                (crate::cfgs::addr(51, 9), victim_addr, b)
            }
            _ => {
                // short-header-looking datagram addressed to a live connection's CID
                if let Some(id) = cands.iter().rev().find(|i| w.dgrams[**i as usize].bytes[0] & 0x80 == 0 && w.dgrams[**i as usize].dst == victim_addr) {
                    let d = w.dgrams[*id as usize].clone();
                    let mut b = d.bytes.clone();
                    let keep = 1 + w.nodes[self.b.server as usize].cid_len;
                    let len = *w.ch.pick("c03.short.len", &[60usize, keep, keep + 1, keep + 4, keep + 20, 1200]);
                    b.truncate(keep.min(b.len()));
                    // (the low bits of a genuine first byte are header-protected, i.e. random)
                    b[0] = 0x40 | (w.ch.choose("c03.short.first", 64) as u8);
                    while b.len() < len {
                        b.push((b.len() * 7 % 256) as u8);
                    }
                    (d.src, d.dst, b)
                } else {
                    return;
                }
            }
        };
        let at = w.now + w.ch.range_log("c03.garbage.delay_us", 0, 100_000) * 1000;
        w.inject(at, src, dst, bytes, None, false, u32::MAX, "garbage");
        w.faults.hit("inject_garbage");
        self.attacks += 1;
    }
}

impl Scenario for C03Scen {
    fn on_incoming(&mut self, w: &mut World, node: u32, incoming: &quinn_proto::Incoming, dgram: u32) -> IncomingAction {
        self.b.on_incoming(w, node, incoming, dgram)
    }
    fn on_accepted(&mut self, w: &mut World, inc: u32, dgram: u32) {
        self.b.on_accepted(w, inc, dgram);
        if w.conns[inc as usize].peer == self.pair_key && self.victim_inc == NO_INC {
            if self.hostile_server {
                self.attacker_inc = inc;
                self.victim_inc = self.pair_key;
                if self.targeted.as_ref().is_some_and(|t| t.handshake_space) {
                    // (the server's first flight is sealed by the drive that follows)
                    self.inject_handshake_space_case(w);
                }
            } else {
                self.victim_inc = inc;
                if self.targeted.as_ref().is_some_and(|t| t.handshake_space && t.header_or != 0) {
                    // (an Initial with reserved bits set that would have created the connection
                    // is dropped without a trace, which is fine: aim at the existing connection)
                    self.inject_handshake_space_case(w);
                }
            }
        }
    }
    fn on_accept_failed(&mut self, _w: &mut World, node: u32, _dgram: u32, err: &ConnectionError) {
        if node == self.b.server && self.accept_failed.is_none() {
            self.accept_failed = Some(err.clone());
        }
    }
    fn on_event(&mut self, w: &mut World, inc: u32, ev: Event) {
        self.b.on_event(w, inc, ev)
    }
    fn on_wake(&mut self, w: &mut World, tag: u64) {
        if tag == TAG_ATTACK {
            self.last_attack_at = w.now;
            if self.mode == 2 {
                self.garbage_step(w);
            } else {
                self.attack_step(w);
            }
            let live = crate::alloc::live();
            self.peak_growth = self.peak_growth.max(live - self.base_live);
            let max_attacks = match self.mode {
                3 => 60,
                2 => 120,
                _ => 40,
            };
            if self.attacks < max_attacks && w.now < 20_000 * MS {
                let gap = if self.mode == 3 { 20 } else { 1 + w.ch.range_log("c03.attack.gap_ms", 0, 400) };
                w.wake_in(gap * MS, TAG_ATTACK);
            }
        } else {
            self.b.on_wake(w, tag)
        }
    }
    fn after_step(&mut self, w: &mut World) {
        self.b.after_step(w);
    }
    fn done(&self, w: &World) -> bool {
        // run until the honest connections are done (or provably never will be: liveness bound
        // of C02) and the attack budget is used up
        self.b.done(w) && w.now > self.last_attack_at + 3_000 * MS && (w.now > 21_000 * MS || self.attacks >= 40)
    }
}

fn run(ch: Chooser, ctx: &RunCtx, mode: u32) -> RunOut {
    let mut w = World::from_ctx(ch, ctx);
    let mut opts = BasicOpts { n_clients: 3, conns_per_client: 1, streams_max: 3, size_max: 8_000, ..Default::default() };
    opts.idle_off = true;
    opts.ops_max = 0;
    opts.allow_corrupt = false;
    opts.max_drop = 50;
    opts.fault_phase_max_ms = if mode == 1 || mode == 3 { 0 } else { 1000 };
    opts.retry = 0;
    opts.cid_len_choices = vec![8, 8, 4, 20, 0];
    opts.force_client_pad = true;
    let hostile_server = match mode {
        1 => w.ch.chance("c03.targeted.hostile_server", 1, 2),
        0 | 3 => w.ch.chance("c03.hostile_server", 1, 3),
        _ => false,
    };
    if hostile_server && mode != 1 {
        opts.pad_rate = 1000;
    }
    if mode == 1 {
        // (the attacker pads every packet so that there is room to overwrite)
        let padded = crate::cfgs::TKnobs { pad_to_mtu: true, ..Default::default() };
        opts.fixed_knobs = Some(if hostile_server { (padded, crate::cfgs::TKnobs::default()) } else { (crate::cfgs::TKnobs::default(), padded) });
    }
    if mode == 3 {
        // lean world: the ledgers must not grow with the flood
        w.tap.lock().unwrap().record = false;
        opts.use_tap = true;
    }
    let mut b = Basic::build(&mut w, opts);
    // client 0 is the attacker: pad every packet so that there is room to overwrite
    let attacker_inc = *b.client_incs.first().unwrap_or(&NO_INC);
    b.wl.unchecked.insert(attacker_inc);
    let mut sc = C03Scen { b, mode, attacker_inc: if hostile_server { NO_INC } else { attacker_inc }, victim_inc: NO_INC, pair_key: attacker_inc, hostile_server, attacks: 0, targeted: None, targeted_sent_at: None, accept_failed: None, flood_kind: 0, flood_packets: 0, base_live: crate::alloc::live(), peak_growth: 0, last_attack_at: 0 };
    if mode == 1 {
        let attacker_cid_len = w.nodes[if hostile_server { sc.b.server } else { sc.b.clients[0] } as usize].cid_len;
        let cases = targeted_cases(!hostile_server, if hostile_server { sc.b.client_knobs.max_bidi } else { sc.b.server_knobs.max_bidi }, attacker_cid_len);
        let i = w.ch.choose("c03.targeted.case", cases.len() as u32) as usize;
        sc.targeted = Some(cases[i].clone());
        if cases[i].handshake_space && !hostile_server && cases[i].header_or == 0 {
            // the attacking client's next padded Initial carries it
            sc.inject_handshake_space_case(&mut w);
        }
    }
    if hostile_server {
        w.faults.hit("hostile_server");
    }
    if mode == 3 {
        sc.flood_kind = w.ch.choose("c03.flood.kind", 7);
    }
    let start = w.ch.range_log("c03.attack.start_ms", 0, 300) * MS;
    w.wake_at(start, TAG_ATTACK);
    w.run(&mut sc);

    // ---- oracles -------------------------------------------------------------------------
    if w.violations.is_empty() {
        // isolation: honest connections (not paired with the attacker) are unaffected
        for c in &w.conns {
            let key = if c.side == Side::Client { c.inc } else { c.peer };
            if key == sc.pair_key || key == NO_INC {
                continue;
            }
            if let Some(r) = c.lost.first() {
                let (k, d) = ("honest-connection-disturbed".to_string(), format!("inc{} ({:?}), which the attacker does not take part in, was lost: {}", c.inc, c.side, r));
                w.violate(k, d);
                break;
            }
        }
    }
    if w.violations.is_empty() {
        // containment: whatever ended the attacked connection must be a transport-level outcome
        if sc.victim_inc != NO_INC {
            for r in &w.conns[sc.victim_inc as usize].lost {
                let ok = matches!(r, ConnectionError::TransportError(_) | ConnectionError::ConnectionClosed(_) | ConnectionError::ApplicationClosed(_) | ConnectionError::Reset | ConnectionError::TimedOut);
                if !ok {
                    let (k, d) = ("unexpected-victim-outcome".to_string(), format!("victim inc{} ended with {:?}", sc.victim_inc, r));
                    w.violate(k, d);
                    break;
                }
            }
        }
    }
    if w.violations.is_empty() && mode == 1 {
        if let (Some(t), Some(_)) = (&sc.targeted, sc.targeted_sent_at) {
            let injected = w.tap.lock().unwrap().injected;
            if injected > 0 && sc.victim_inc == NO_INC {
                // the illegal frame rode in the datagram that would have created the victim
                // connection: the endpoint must have refused with the prescribed class
                if let Some(ConnectionError::TransportError(e)) = &sc.accept_failed {
                    let code = u64::from(e.code);
                    if !t.codes.contains(&code) {
                        let (k, d) = (format!("wrong-error-class/{}", t.name), format!("victim endpoint refused the connection with transport error 0x{:x} ({}), RFC 9000 prescribes one of {:x?}", code, e, t.codes));
                        w.violate(k, d);
                    } else {
                        w.probes.hit("targeted_violation_rejected_at_accept");
                        w.probes.hit(t.name);
                    }
                }
            }
            if injected > 0 && sc.victim_inc != NO_INC {
                match w.conns[sc.victim_inc as usize].lost.first() {
                    Some(ConnectionError::TransportError(e)) => {
                        let code = u64::from(e.code);
                        if !t.codes.contains(&code) {
                            let (k, d) = (format!("wrong-error-class/{}", t.name), format!("victim closed with transport error 0x{:x} ({}), RFC 9000 prescribes one of {:x?}", code, e, t.codes));
                            w.violate(k, d);
                        } else {
                            // and the CONNECTION_CLOSE it emitted carries the same code
                            let tap = w.tap.lock().unwrap();
                            let announced = tap.pkts.iter().filter(|p| p.enc && p.inc == sc.victim_inc).any(|p| wire::frames(&p.payload).0.iter().any(|f| matches!(f, Frame::ConnectionClose { code: c, .. } if *c == code)));
                            drop(tap);
                            if !announced {
                                let (k, d) = (format!("error-not-announced/{}", t.name), format!("victim detected 0x{:x} but sent no CONNECTION_CLOSE with that code", code));
                                w.violate(k, d);
                            } else {
                                w.probes.hit("targeted_violation_rejected_with_right_code");
                                w.probes.hit(t.name);
                            }
                        }
                    }
                    other => {
                        let (k, d) = (format!("violation-not-rejected/{}", t.name), format!("victim inc{} did not terminate the connection after the illegal frame (outcome {:?})", sc.victim_inc, other));
                        w.violate(k, d);
                    }
                }
            }
        }
    }
    let growth = sc.peak_growth;
    if w.violations.is_empty() && mode == 3 {
        // bounded memory: the whole world (both peers, harness included) must not have grown by
        // more than a fixed cap while ~10^5 hostile frames were processed
        let cap: i64 = 24 << 20;
        if growth > cap {
            w.violate(format!("memory-growth-under-flood/kind{}", sc.flood_kind), format!("live heap grew by {} bytes during a flood of {} packets (cap {})", growth, sc.flood_packets, cap));
        }
    }
    if w.violations.is_empty() {
        // the attacked pair's own losses are expected; forget them before the generic end checks
        let att = sc.pair_key;
        for c in w.conns.iter_mut() {
            let key = if c.side == Side::Client { c.inc } else { c.peer };
            if key == att {
                c.lost.clear();
            }
        }
    }
    if w.violations.is_empty() {
        // honest workloads complete (the attacker's own pair is exempt): same wedge / bound oracle
        // as C02, restricted to the connections the attacker takes no part in
        super::c02::liveness_end_checks(&mut w, &sc.b);
        if let Some(v) = w.violations.last_mut() {
            if v.kind.starts_with("wedge/") || v.kind.starts_with("no-progress/") {
                v.kind = format!("honest-connection-starved/{}", v.kind);
            }
        }
    }
    let mut o = RunOut::from_world(&mut w);
    if mode == 3 {
        // (other worlds keep full ledgers, whose size is the harness's, not quinn's)
        o.stats.insert("flood_heap_growth_bytes", growth as f64);
    }
    o.stats.insert("frames_injected", w.tap.lock().unwrap().injected as f64);
    o.config = format!("mode={} hostile_server={} targeted={:?} flood_kind={} server={:?} attacker_client={:?}", mode, sc.hostile_server, sc.targeted.as_ref().map(|t| t.name), sc.flood_kind, sc.b.server_knobs, sc.b.client_knobs);
    o
}

fn fam_frames(ch: Chooser, ctx: &RunCtx) -> RunOut {
    run(ch, ctx, 0)
}
fn fam_targeted(ch: Chooser, ctx: &RunCtx) -> RunOut {
    run(ch, ctx, 1)
}
fn fam_garbage(ch: Chooser, ctx: &RunCtx) -> RunOut {
    run(ch, ctx, 2)
}
fn fam_flood(ch: Chooser, ctx: &RunCtx) -> RunOut {
    run(ch, ctx, 3)
}

// ---- hostile transport parameters -------------------------------------------------------------

fn tlv_list(bytes: &[u8]) -> Vec<(u64, Vec<u8>)> {
    let mut r = wire::Rd::new(bytes);
    let mut out = Vec::new();
    while r.left() > 0 {
        let Ok(id) = r.var() else { break };
        let Ok(len) = r.var() else { break };
        let Ok(val) = r.take(len as usize) else { break };
        out.push((id, val.to_vec()));
    }
    out
}

fn tlv_write(list: &[(u64, Vec<u8>)]) -> Vec<u8> {
    let mut out = Vec::new();
    for (id, val) in list {
        put_var(&mut out, *id);
        put_var(&mut out, val.len() as u64);
        out.extend_from_slice(val);
    }
    out
}

fn set_int(list: &mut Vec<(u64, Vec<u8>)>, id: u64, value: u64) {
    let mut v = Vec::new();
    put_var(&mut v, value);
    if let Some(e) = list.iter_mut().find(|e| e.0 == id) {
        e.1 = v;
    } else {
        list.push((id, v));
    }
}

fn fam_params(ch: Chooser, ctx: &RunCtx) -> RunOut {
    let mut w = World::from_ctx(ch, ctx);
    let mut opts = BasicOpts { n_clients: 2, conns_per_client: 1, streams_max: 4, size_max: 30_000, ..Default::default() };
    opts.idle_off = true;
    opts.ops_max = 2;
    opts.op_kinds = vec![0, 1];
    opts.allow_corrupt = false;
    opts.fault_phase_max_ms = 500;
    opts.max_drop = 50;
    // which side announces the extreme parameters: node 0 = server, node 1 = first client
    let hostile_node: u32 = w.ch.choose("c03.params.who", 2);
    // draw the patch up front (the closure must be Send + Sync and deterministic)
    let n = 1 + w.ch.choose("c03.params.n", 4);
    let mut edits: Vec<(u64, u64)> = Vec::new();
    for _ in 0..n {
        let id = *w.ch.pick("c03.params.id", &[0xff04de1bu64, 0x0b, 0x0a, 0x01, 0x03, 0x04, 0x05, 0x06, 0x07, 0x08, 0x09, 0x0e, 0x20]);
        let val = match id {
            0xff04de1b => *w.ch.pick("c03.params.min_ack_delay", &[200_000u64, 0, 1, 1000, 24_999, 25_000, 26_000, 1_000_000, 16_383_000]),
            0x0b => *w.ch.pick("c03.params.max_ack_delay", &[255u64, 0, 1, 25, 1000, 16_383]),
            0x0a => *w.ch.pick("c03.params.ade", &[20u64, 0, 3, 19]),
            0x01 => *w.ch.pick("c03.params.idle", &[0u64, 1, 10, (1 << 62) - 1]),
            0x03 => *w.ch.pick("c03.params.mups", &[1200u64, 1201, 1500, 65_527, (1 << 62) - 1]),
            0x0e => *w.ch.pick("c03.params.acil", &[2u64, 3, 8, 1000, (1 << 62) - 1]),
            0x20 => *w.ch.pick("c03.params.mdfs", &[0u64, 1, 100, 65_535, (1 << 62) - 1]),
            0x08 | 0x09 => *w.ch.pick("c03.params.streams", &[0u64, 1, 100, 1 << 60]),
            _ => *w.ch.pick("c03.params.window", &[0u64, 1, 1000, 1 << 32, (1 << 62) - 1]),
        };
        edits.push((id, val));
    }
    let ed = edits.clone();
    w.tap.lock().unwrap().params_patch.insert(
        hostile_node,
        std::sync::Arc::new(move |bytes: Vec<u8>| {
            let mut l = tlv_list(&bytes);
            for (id, val) in &ed {
                set_int(&mut l, *id, *val);
            }
            // keep the one cross-parameter constraint satisfiable (min_ack_delay <= max_ack_delay):
            // a hostile peer that wants a large min_ack_delay simply announces a large max_ack_delay
            let get = |l: &Vec<(u64, Vec<u8>)>, id: u64| l.iter().find(|e| e.0 == id).and_then(|e| wire::Rd::new(&e.1).var().ok());
            if let Some(min_us) = get(&l, 0xff04de1b) {
                let max_ms = get(&l, 0x0b).unwrap_or(25);
                if min_us > max_ms * 1000 && min_us <= 16_383_000 {
                    set_int(&mut l, 0x0b, min_us.div_ceil(1000));
                }
            }
            tlv_write(&l)
        }),
    );
    let mut sc = Basic::build(&mut w, opts);
    let hostile_key = if hostile_node == 0 { None } else { sc.client_incs.first().copied() };
    if let Some(k) = hostile_key {
        sc.wl.unchecked.insert(k);
    } else {
        // hostile server: every connection talks to it
        for i in sc.client_incs.clone() {
            sc.wl.unchecked.insert(i);
        }
    }
    w.run(&mut sc);
    // the values are extreme but legal: nothing may panic (checked by the runner); a connection
    // may legitimately make little progress (e.g. zero windows), so only isolation is judged
    if w.violations.is_empty() && hostile_node != 0 {
        for c in &w.conns {
            let key = if c.side == Side::Client { c.inc } else { c.peer };
            if Some(key) == hostile_key || key == NO_INC {
                continue;
            }
            if let Some(r) = c.lost.first() {
                let (k, d) = ("honest-connection-disturbed".to_string(), format!("inc{} was lost ({}) although only another connection's peer announced extreme parameters", c.inc, r));
                w.violate(k, d);
                break;
            }
        }
    }
    let (patched, rejected) = {
        let t = w.tap.lock().unwrap();
        (t.params_patched, t.params_patch_rejected)
    };
    if patched > 0 {
        w.probes.hit("extreme_params_announced");
    }
    if rejected > 0 {
        w.probes.hit("extreme_params_rejected_by_own_parser");
    }
    let mut o = RunOut::from_world(&mut w);
    o.config = format!("hostile_node={} edits={:x?} server={:?} client={:?}", hostile_node, edits, sc.server_knobs, sc.client_knobs);
    o
}

// ------------------------------------------------------------------------------------------
// pending-incoming: a server application that is slow to decide about connection attempts
// ------------------------------------------------------------------------------------------

const TAG_DECIDE: u64 = TAG_USER + (9 << 30);

/// Many clients connect at once to a server whose application takes its time to accept, refuse,
/// ignore or retry each attempt, with tiny limits on how many attempts may be pending and on how
/// much may be buffered for them. Judged: the limits hold at every step, everything buffered is
/// released once the attempts are decided, attempts that are accepted (however late) complete
/// their workload, nothing else is disturbed.
struct PendScen {
    b: Basic,
    limits: (usize, u64, u64),
    /// (index into w.waiting, client connection, decision) of undecided attempts
    pending: Vec<(usize, u32, u8)>,
    /// what the application does with the attempts of one client connection — the same every
    /// time (0 accept, 1 demand a Retry first, 2 refuse, 3 ignore): an application that answered
    /// one Initial with a Retry and accepted a retransmission of the same Initial without one
    /// would create a second, orphaned connection all by itself
    policy: BTreeMap<u32, u8>,
    wait_rate: u32,
    max_pending_seen: usize,
    max_buffered_seen: u64,
}

impl PendScen {
    fn excuse(&mut self, client_inc: u32) {
        if client_inc != NO_INC {
            self.b.wl.unchecked.insert(client_inc);
        }
    }

    fn decide(&mut self, w: &mut World, origin: u32, decision: u8) -> IncomingAction {
        match decision {
            1 => {
                w.faults.hit("attempt_retried");
                IncomingAction::Retry
            }
            2 => {
                self.excuse(origin);
                w.faults.hit("attempt_refused");
                IncomingAction::Refuse
            }
            3 => {
                // (the client keeps knocking and never gets anywhere)
                self.excuse(origin);
                w.faults.hit("attempt_ignored");
                IncomingAction::Ignore
            }
            _ => IncomingAction::Accept,
        }
    }
}

impl Scenario for PendScen {
    fn on_incoming(&mut self, w: &mut World, node: u32, incoming: &quinn_proto::Incoming, dgram: u32) -> IncomingAction {
        if self.pending.len() >= self.limits.0 {
            w.violate("pending-incoming-beyond-max-incoming", format!("a connection attempt was surfaced while {} attempts were pending; max_incoming is {}", self.pending.len(), self.limits.0));
            return IncomingAction::Ignore;
        }
        let origin = w.dgrams.get(dgram as usize).map_or(NO_INC, |d| d.origin_inc);
        let pol = match self.policy.get(&origin) {
            Some(p) => *p,
            None => {
                let p = match w.ch.choose("c03.pend.policy", 10) {
                    0..=5 => 0,
                    6 => 1,
                    7 | 8 => 2,
                    _ => 3,
                };
                self.policy.insert(origin, p);
                p
            }
        };
        let decision = if pol == 1 && (incoming.remote_address_validated() || !incoming.may_retry()) { 0 } else { pol };
        // (the application dawdles only while the fault phase lasts: a pending slot that is
        // occupied whenever a starved client's ever rarer retransmission arrives is overload by
        // configuration, not something the endpoint could do anything about)
        if w.now < self.b.fault_end && w.ch.chance("c03.pend.wait", self.wait_rate, 1000) {
            let idx = w.waiting.len();
            self.pending.push((idx, origin, decision));
            self.max_pending_seen = self.max_pending_seen.max(self.pending.len());
            let d = w.ch.range_log("c03.pend.delay_us", 0, 3_000_000) * 1000;
            w.wake_in(d, TAG_DECIDE + idx as u64);
            w.faults.hit("accept_decision_deferred");
            return IncomingAction::Wait;
        }
        let _ = node;
        self.decide(w, origin, decision)
    }
    fn on_accepted(&mut self, w: &mut World, inc: u32, dgram: u32) {
        self.b.on_accepted(w, inc, dgram)
    }
    fn on_accept_failed(&mut self, w: &mut World, _node: u32, dgram: u32, _err: &ConnectionError) {
        let origin = w.dgrams.get(dgram as usize).map_or(NO_INC, |d| d.origin_inc);
        self.excuse(origin);
    }
    fn on_event(&mut self, w: &mut World, inc: u32, ev: Event) {
        self.b.on_event(w, inc, ev)
    }
    fn on_wake(&mut self, w: &mut World, tag: u64) {
        if tag >= TAG_DECIDE && tag < TAG_DECIDE + (1 << 20) {
            let idx = (tag - TAG_DECIDE) as usize;
            let Some(pos) = self.pending.iter().position(|p| p.0 == idx) else { return };
            let (_, origin, decision) = self.pending.remove(pos);
            let Some(wt) = w.waiting[idx].take() else { return };
            w.faults.hit("pending_attempt_decided_late");
            let act = self.decide(w, origin, decision);
            w.resolve_incoming(wt.node, wt.incoming, wt.dgram, act, self);
        } else {
            self.b.on_wake(w, tag)
        }
    }
    fn after_step(&mut self, w: &mut World) {
        self.b.after_step(w);
        let buffered = w.nodes[self.b.server as usize].ep.incoming_buffer_bytes();
        self.max_buffered_seen = self.max_buffered_seen.max(buffered);
        if buffered > self.limits.2 {
            w.violate("incoming-buffers-beyond-total-limit", format!("{} bytes are buffered for pending connection attempts; incoming_buffer_size_total is {}", buffered, self.limits.2));
        } else if buffered > self.limits.1 * self.pending.len() as u64 {
            w.violate("incoming-buffers-beyond-per-attempt-limit", format!("{} bytes are buffered for {} pending connection attempts; incoming_buffer_size is {}", buffered, self.pending.len(), self.limits.1));
        }
    }
    fn on_quiescent(&mut self, w: &mut World) {
        self.b.on_quiescent(w)
    }
    fn done(&self, w: &World) -> bool {
        self.pending.is_empty() && self.b.done(w)
    }
}

fn fam_pending(ch: Chooser, ctx: &RunCtx) -> RunOut {
    let mut w = World::from_ctx(ch, ctx);
    let mut opts = BasicOpts { streams_max: 2, size_max: 4000, ..Default::default() };
    opts.n_clients = 2 + w.ch.choose("c03.pend.clients", 7);
    opts.conns_per_client = 1 + w.ch.choose("c03.pend.conns", 2);
    opts.idle_off = true;
    opts.ops_max = 0;
    opts.allow_corrupt = false;
    opts.max_drop = 100;
    opts.fault_phase_max_ms = 1500;
    opts.cid_len_choices = vec![8, 8, 4, 20];
    let limits = (
        *w.ch.pick("c03.pend.max_incoming", &[2usize, 1, 3, 5, 1 << 16]),
        *w.ch.pick("c03.pend.buffer", &[2400u64, 0, 1199, 1200, 5000, 10 << 20]),
        *w.ch.pick("c03.pend.buffer_total", &[3000u64, 0, 1200, 6000, 100 << 20]),
    );
    opts.incoming_limits = Some(limits);
    let b = Basic::build(&mut w, opts);
    let wait_rate = *w.ch.pick("c03.pend.wait_rate", &[750u32, 1000, 300]);
    let mut sc = PendScen { b, limits, pending: Vec::new(), policy: BTreeMap::new(), wait_rate, max_pending_seen: 0, max_buffered_seen: 0 };
    w.run(&mut sc);
    if w.violations.is_empty() {
        // whatever is still undecided when the world ends is dropped: nothing may stay behind
        for (idx, _, _) in std::mem::take(&mut sc.pending) {
            if let Some(wt) = w.waiting[idx].take() {
                w.nodes[wt.node as usize].ep.ignore(wt.incoming);
            }
        }
        let left = w.nodes[sc.b.server as usize].ep.incoming_buffer_bytes();
        if left != 0 {
            w.violate("incoming-buffers-not-released", format!("{} bytes are still accounted to pending connection attempts after every attempt was decided", left));
        }
    }
    if w.violations.is_empty() {
        // attempts that were refused or ignored end in a loss on the client: expected
        let excused = sc.b.wl.unchecked.clone();
        for c in w.conns.iter_mut() {
            let key = if c.side == Side::Client { c.inc } else { c.peer };
            if excused.contains(&key) {
                c.lost.clear();
            }
        }
        super::c02::liveness_end_checks(&mut w, &sc.b);
    }
    let mut o = RunOut::from_world(&mut w);
    o.stats.insert("pending_incoming_max", sc.max_pending_seen as f64);
    o.stats.insert("incoming_buffered_max_bytes", sc.max_buffered_seen as f64);
    o.config = format!("limits(max_incoming, buffer, buffer_total)={:?} wait_rate={} server={:?} client={:?} net={:?}", limits, wait_rate, sc.b.server_knobs, sc.b.client_knobs, w.net);
    o
}

pub fn spec() -> PropSpec {
    PropSpec {
        id: "C03",
        families: vec![
            Family { name: "authenticated-frames", f: fam_frames, weight: 35 },
            Family { name: "targeted-violations", f: fam_targeted, weight: 15 },
            Family { name: "garbage-datagrams", f: fam_garbage, weight: 25 },
            Family { name: "frame-floods", f: fam_flood, weight: 5 },
            Family { name: "extreme-transport-parameters", f: fam_params, weight: 20 },
            Family { name: "pending-incoming", f: fam_pending, weight: 10 },
        ],
        quick_worlds: 80_000,
        thorough_worlds: 1_200_000,
        panic_is_violation: true,
        rule: "each world = a server endpoint with two honest clients and one hostile peer that (a) has grammar-generated, boundary-biased frame sequences written into its correctly protected packets (1-RTT replace/overlay, Initial/Handshake overlay), (b) sends one RFC-pinned illegal frame, (c) injects arbitrary / structurally mutated datagrams, (d) floods ~10^5 small frames, or (e) announces extreme but well-formed transport parameters; non-trivial = an injection fired; distinct = distinct abstract-event signature",
        assumptions: vec![
            "the victim is unmodified: hostile plaintext is written by the crypto tap of the *attacker's* connection just before sealing",
            "transport parameters are patched as TLV bytes and re-read with quinn's public parser; encodings that parser rejects cannot be sent through the real TLS session and are counted (probe extreme_params_rejected_by_own_parser)",
            "memory bound: live heap of the whole world (thread-local counting allocator) may grow by at most 24 MiB during a flood; the observed maximum is reported as stats_max.heap_growth_bytes",
        ],
        real: super::REAL.to_vec(),
        stub: super::STUB.to_vec(),
    }
}
