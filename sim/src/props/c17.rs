//! C17 — 0-RTT data is delivered once if accepted and vanishes if rejected.
//!
//! A client connects once (clean network) to obtain a session ticket, then connects again and
//! starts its application *before* the handshake completes. The second connection's server
//! configuration is drawn: accept early data, refuse it but resume (same ticket store, early
//! data disabled), or refuse it without resumption (fresh ticket store) — optionally with
//! different transport parameters, after a Retry, or accepted late (early packets buffered in the
//! `Incoming`). The fault phase covers the second handshake.
//!
//! Oracles: the keyed data-pattern / ledger oracle of the workload (early streams use their own
//! key epoch, so early bytes surfacing after a rejection cannot match anything the client wrote
//! afterwards), exactly-once and completion in the clean phase, the rejection report of every
//! early stream at `Connected`, stream ids restarting at 0, the credit ledger of C05 against the
//! *newly* negotiated limits, and the tap's acceptance ledger (no 0-RTT packet decrypted by a
//! server that refused early data).

use std::sync::Arc;

use quinn_proto::{Event, Side, VarInt};

use crate::app::draw_plans;
use crate::cfgs::{self, TKnobs};
use crate::chooser::Chooser;
use crate::runner::{Family, PropSpec, RunCtx, RunOut};
use crate::scen::{Basic, BasicOpts, Oracle, TAG_CLEAN, TAG_USER};
use crate::tap::NO_INC;
use crate::wire::Space;
use crate::world::{IncomingAction, Ns, Scenario, World, MS, SEC};

const TAG_SECOND: u64 = TAG_USER + 17;
const TAG_LATE: u64 = TAG_USER + 18;
const TAG_EARLY_OP: u64 = TAG_USER + 19;

#[derive(Clone, Copy, Debug, PartialEq, Eq)]
pub enum Mode {
    Accept,
    /// the ticket is honoured (resumption) but early data is not
    RejectResumed,
    /// the ticket is unknown to the server: full handshake
    RejectFull,
}

pub struct C17Scen {
    pub b: Basic,
    pub t2: Ns,
    pub mode: Mode,
    pub alt: Option<TKnobs>,
    /// the second connection's server parameters are lower than the remembered ones somewhere
    pub lowered: bool,
    pub late_accept: Option<Ns>,
    pub close_first: bool,
    pub second: Option<u32>,
    pub had_0rtt: bool,
    pub cfg2: Arc<quinn_proto::ServerConfig>,
    wait_idx: Option<usize>,
    pub retry2: bool,
    /// the early application resets / stops one of its early streams this long after connecting
    /// (while the handshake is still in progress)
    pub early_op: Option<(Ns, bool)>,
    budget2: u64,
    dirs2: (bool, bool),
}

pub struct C17Opts {
    pub basic: BasicOpts,
    pub accept_weight: u32,
}

impl C17Scen {
    pub fn build(w: &mut World, mut o: C17Opts) -> Self {
        let tls = cfgs::rustls_server(false, true);
        let t2 = (2500 + w.ch.range("c17.t2_ms", 0, 1500)) * MS;
        o.basic.server_tls = Some(tls.clone());
        o.basic.fault_start = t2;
        o.basic.n_clients = 1;
        o.basic.conns_per_client = 1;
        o.basic.allow_corrupt = false;
        o.basic.idle_off = true;
        o.basic.cid_len_choices = vec![8, 8, 4, 20];
        let b = Basic::build(w, o.basic);
        let mode = [Mode::Accept, Mode::RejectResumed, Mode::RejectFull][w.ch.weighted("c17.mode", &[o.accept_weight, (100 - o.accept_weight) / 2, (100 - o.accept_weight) / 2])];
        // transport parameters of the second connection
        let mut lowered = false;
        let alt = if w.ch.chance("c17.alt_params", 1, 2) {
            let mut k = b.server_knobs.clone();
            let mut vary = |v: &mut u64, site: &'static str, ch: &mut Chooser| {
                let old = *v;
                match ch.choose(site, 4) {
                    0 => {}
                    // (a remembered limit of zero may become non-zero: the application was
                    // refused everything during the early phase and must be told to try again)
                    1 => *v = old.saturating_mul(2).clamp(3, (1 << 60) - 1),
                    2 => *v = (old / 2).max(old.min(1)),
                    _ => *v = old.min(1),
                }
                *v < old
            };
            lowered |= vary(&mut k.stream_window, "c17.alt.stream_window", &mut w.ch);
            lowered |= vary(&mut k.conn_window, "c17.alt.conn_window", &mut w.ch);
            lowered |= vary(&mut k.max_bidi, "c17.alt.max_bidi", &mut w.ch);
            lowered |= vary(&mut k.max_uni, "c17.alt.max_uni", &mut w.ch);
            Some(k)
        } else {
            None
        };
        let tls2 = match mode {
            Mode::Accept => tls.clone(),
            Mode::RejectResumed => {
                let mut t = tls.clone();
                t.max_early_data_size = 0;
                t
            }
            Mode::RejectFull => cfgs::rustls_server(false, true),
        };
        let k2 = alt.clone().unwrap_or_else(|| b.server_knobs.clone());
        let crypto2 = if b.opts.use_tap { cfgs::tapped_server_crypto(&w.tap, 0, tls2) } else { cfgs::untapped_server_crypto(tls2) };
        let mut cfg2 = cfgs::server_config(crypto2, 0x70, Arc::new(k2.build()), b.clock.clone());
        cfg2.migration(b.opts.server_migration);
        // feasibility of the second connection's client workload under both parameter sets
        let rtts = (b.opts.plan_time / (2 * w.net.base_delay + w.net.jitter + 60 * MS)).max(1);
        let min2 = k2.stream_window.min(k2.conn_window).min(b.client_knobs.send_window).max(1);
        let budget2 = b.budget_c.min(min2.saturating_mul(rtts / 8 + 1));
        // (feasibility is decided by the limits in force after the handshake)
        let dirs2 = (k2.max_bidi > 0, k2.max_uni > 0);
        let late_accept = if w.ch.chance("c17.late_accept", 1, 4) { Some(w.ch.range_log("c17.late_ms", 1, 3000) * MS) } else { None };
        let close_first = w.ch.chance("c17.close_first", 1, 2);
        let retry2 = w.ch.chance("c17.retry2", 1, 3);
        let early_op = if w.ch.chance("c17.early_op", 1, 3) { Some((w.ch.range_log("c17.early_op_us", 1, 3 * w.net.base_delay / 1000 + 1000) * 1000, w.ch.chance("c17.early_op_stop", 1, 2))) } else { None };
        if let Some((d, _)) = early_op {
            w.wake_at(t2 + d, TAG_EARLY_OP);
        }
        w.wake_at(t2, TAG_SECOND);
        Self { b, t2, mode, alt, lowered, late_accept, close_first, second: None, had_0rtt: false, cfg2: Arc::new(cfg2), wait_idx: None, retry2, early_op, budget2, dirs2 }
    }

    fn start_second(&mut self, w: &mut World) {
        if self.close_first {
            if let Some(&c1) = self.b.client_incs.first() {
                if !w.conns[c1 as usize].conn.is_closed() {
                    let now = w.instant();
                    w.conn_mut(c1).close(now, VarInt::from_u32(7), bytes::Bytes::from_static(b"next"));
                    w.conns[c1 as usize].closed_locally_at = Some(w.now);
                    self.b.wl.mark_closed(c1);
                    w.faults.hit("app_close");
                }
            }
        }
        let node = self.b.clients[0];
        let cfg = self.b.client_cfgs[0].clone();
        match w.connect(node, cfg, self.b.server_addr, "localhost") {
            Ok(inc) => {
                let plans = draw_plans(w, self.b.opts.streams_max, self.b.opts.size_max, self.b.opts.reset_rate, self.b.opts.leave_rate, self.budget2 / 2, self.dirs2);
                self.b.wl.add_side(inc, true, plans);
                self.b.wl.sides.get_mut(&inc).unwrap().resp_cap = self.budget2 / 2 / self.b.opts.streams_max.max(1) as u64;
                self.b.client_incs.push(inc);
                self.second = Some(inc);
                if self.mode == Mode::Accept && self.lowered {
                    // a server that accepts early data while lowering its limits breaks the
                    // protocol itself: nothing is expected of that connection
                    self.b.wl.unchecked.insert(inc);
                }
                if w.conns[inc as usize].conn.has_0rtt() {
                    self.had_0rtt = true;
                    w.probes.hit("second_has_0rtt");
                    w.sig_mix(0x0477);
                    self.b.wl.kick_early(w, inc);
                    if self.b.wl.sides[&inc].bytes_written > 0 {
                        w.probes.hit("early_bytes_written");
                    }
                } else {
                    w.probes.hit("second_without_0rtt");
                }
            }
            Err(e) => w.violate("connect-failed", format!("{:?}", e)),
        }
    }

    fn is_second(&self, w: &World, dgram: u32) -> bool {
        self.second.is_some() && w.dgrams[dgram as usize].origin_inc == self.second.unwrap()
    }
}

impl Scenario for C17Scen {
    fn on_incoming(&mut self, w: &mut World, node: u32, incoming: &quinn_proto::Incoming, dgram: u32) -> IncomingAction {
        if !self.is_second(w, dgram) {
            return self.b.on_incoming(w, node, incoming, dgram);
        }
        // (a Retry is demanded even from a client that presented a NEW_TOKEN token)
        if self.retry2 && incoming.may_retry() {
            w.probes.hit("retry_taken_second");
            return IncomingAction::Retry;
        }
        if let (Some(d), None) = (self.late_accept, self.wait_idx) {
            self.wait_idx = Some(w.waiting.len());
            w.wake_in(d, TAG_LATE);
            w.probes.hit("accept_late");
            return IncomingAction::Wait;
        }
        IncomingAction::AcceptWith(self.cfg2.clone())
    }
    fn on_accepted(&mut self, w: &mut World, inc: u32, dgram: u32) {
        self.b.on_accepted(w, inc, dgram)
    }
    fn on_event(&mut self, w: &mut World, inc: u32, ev: Event) {
        self.b.on_event(w, inc, ev)
    }
    fn on_wake(&mut self, w: &mut World, tag: u64) {
        if tag == TAG_SECOND {
            self.start_second(w);
        } else if tag == TAG_EARLY_OP {
            let Some(inc) = self.second else { return };
            let early = self.b.wl.sides.get(&inc).is_some_and(|s| s.early && !s.connected && s.lost.is_none());
            if !early || w.conns[inc as usize].conn.is_closed() {
                return;
            }
            let stop = self.early_op.is_some_and(|x| x.1);
            if stop {
                // stop the receiving half of an early bidirectional stream
                let cand = self.b.wl.sides[&inc].recvs.iter().find(|(_, r)| r.terminal.is_none()).map(|(id, _)| *id);
                if let Some(sid) = cand {
                    let id = quinn_proto::StreamId::new(Side::Client, quinn_proto::Dir::Bi, sid >> 2);
                    if w.conn_mut(inc).recv_stream(id).stop(VarInt::from_u32(99)).is_ok() {
                        self.b.wl.sides.get_mut(&inc).unwrap().recvs.get_mut(&sid).unwrap().terminal = Some(crate::app::RTerm::Stopped(99));
                        w.faults.hit("early_stream_stopped");
                    }
                }
            } else {
                let cand = self.b.wl.sides[&inc].sends.iter().find(|(_, st)| matches!(st.state, crate::app::SState::Writing | crate::app::SState::FinishCalled)).map(|(id, _)| *id);
                if let Some(sid) = cand {
                    let dir = if sid & 2 == 0 { quinn_proto::Dir::Bi } else { quinn_proto::Dir::Uni };
                    let id = quinn_proto::StreamId::new(Side::Client, dir, sid >> 2);
                    if w.conn_mut(inc).send_stream(id).reset(VarInt::from_u32(98)).is_ok() {
                        let st = self.b.wl.sides.get_mut(&inc).unwrap().sends.get_mut(&sid).unwrap();
                        st.reset_code = Some(98);
                        st.state = crate::app::SState::ResetCalled(98);
                        w.faults.hit("early_stream_reset");
                    }
                }
            }
        } else if tag == TAG_LATE {
            if let Some(i) = self.wait_idx {
                if let Some(wt) = w.waiting[i].take() {
                    let cfg = self.cfg2.clone();
                    w.resolve_incoming(wt.node, wt.incoming, wt.dgram, IncomingAction::AcceptWith(cfg), self);
                }
            }
        } else {
            if tag == TAG_CLEAN && w.now < self.t2 {
                // fault-free world: Basic's clean marker fires at time 0
            }
            self.b.on_wake(w, tag);
        }
    }
    fn after_step(&mut self, w: &mut World) {
        let wl = &self.b.wl;
        for o in self.b.oracles.iter_mut() {
            o.after_step(w, wl);
        }
        if self.b.completed_at.is_none() && self.b.clean && self.second.is_some() && w.now >= self.t2 && wl.complete(w) {
            self.b.completed_at = Some(w.now);
        }
    }
    fn done(&self, w: &World) -> bool {
        self.b.completed_at.is_some() || (self.b.clean && w.now > self.b.fault_end.max(self.t2) + self.b.opts.clean_budget)
    }
}

const INCOMPAT: &str = "incompatible transport parameters";

pub fn end_checks(w: &mut World, sc: &C17Scen) {
    if !w.violations.is_empty() {
        return;
    }
    let Some(second) = sc.second else { return };
    let early_accepted = sc.b.wl.sides.get(&second).and_then(|s| s.early_accepted);
    // the server accepted early data with lower limits than the client remembered: the client
    // is required to treat that as a connection error (RFC 9000 §7.4.1)
    let incompat_expected = sc.mode == Mode::Accept && sc.lowered && sc.had_0rtt;
    let second_peer = w.conns[second as usize].peer;
    let mut incompat_seen = false;
    for c in &w.conns {
        for r in &c.lost {
            use quinn_proto::ConnectionError as E;
            // (every server connection the second client connection gave rise to: after a
            // failed first attempt its retransmitted Initial creates another one)
            let in_second = c.inc == second || c.inc == second_peer || (c.side == Side::Server && c.peer == second);
            let text = format!("{}", r);
            let legit = match r {
                E::ApplicationClosed(_) => w.faults.m.contains_key("app_close"),
                E::LocallyClosed => true,
                // the first connection was closed by the client and the close was lost: the
                // server's next packet draws a stateless reset
                E::Reset if !in_second && sc.close_first => true,
                // the client closed the first connection while its server was still handshaking
                // (the client's Finished was lost): an application close cannot be carried by a
                // Handshake packet and arrives as APPLICATION_ERROR "during the handshake"
                E::ConnectionClosed(_) if !in_second && sc.close_first && w.faults.m.contains_key("app_close") && text.contains("during the handshake") => true,
                // (the server usually notices first: the client keeps using the remembered,
                // higher limits until it sees the new parameters)
                _ if in_second && incompat_expected => {
                    incompat_seen = true;
                    let _ = (&text, INCOMPAT);
                    true
                }
                _ => false,
            };
            if !legit {
                let d = format!("inc{} ({:?}) lost: {} [mode={:?} lowered={} had_0rtt={}]", c.inc, c.side, r, sc.mode, sc.lowered, sc.had_0rtt);
                w.violate("unexpected-connection-loss", d);
                return;
            }
        }
    }
    if early_accepted == Some(true) && sc.mode != Mode::Accept {
        w.violate("early-data-accepted-by-refusing-server", format!("accepted_0rtt() is true although the server configuration for this connection was {:?}", sc.mode));
        return;
    }
    if early_accepted == Some(true) && sc.lowered && !incompat_seen && w.conns[second as usize].lost.is_empty() {
        w.violate("incompatible-parameters-accepted", "0-RTT was accepted with transport parameters lower than the remembered ones and the client carried on".to_string());
        return;
    }
    // a server that refused early data must never have opened a 0-RTT packet of that connection
    if sc.had_0rtt && sc.mode != Mode::Accept && second_peer != NO_INC {
        let tap = w.tap.lock().unwrap();
        let n = tap.pkts.iter().filter(|p| !p.enc && p.ok && p.space == Space::ZeroRtt && p.inc == second_peer).count();
        drop(tap);
        if n > 0 {
            w.violate("early-packet-opened-after-rejection", format!("the server connection inc{} decrypted {} 0-RTT packets although it refused early data", second_peer, n));
            return;
        }
    }
    if incompat_seen {
        return;
    }
    // completion (exactly-once is judged continuously by the workload)
    if sc.b.completed_at.is_none() && w.hit_limit.is_none() && sc.b.wl.incomplete_reason(w).is_some() {
        let (k, d) = super::c02::classify(w, &sc.b);
        let ctx = format!("[mode={:?} had_0rtt={} early_accepted={:?} retry={} late_accept={:?} alt={:?}] ", sc.mode, sc.had_0rtt, early_accepted, sc.retry2, sc.late_accept, sc.alt.as_ref().map(|k| (k.stream_window, k.conn_window, k.max_bidi, k.max_uni)));
        if w.queue.is_empty() {
            w.violate(format!("wedge/{}", k), format!("{}nothing in flight, no timer armed, no event pending, yet: {}", ctx, d));
        } else {
            w.violate(format!("no-progress/{}", k), format!("{}not complete {} after the faults stopped: {}", ctx, crate::world::fmt_t(w.now.saturating_sub(sc.b.fault_end.max(sc.t2))), d));
        }
    }
}

pub fn run_scen(ch: Chooser, ctx: &RunCtx, o: C17Opts, extra: Vec<Box<dyn Oracle>>, track_probe: bool) -> (World, C17Scen) {
    let mut w = World::from_ctx(ch, ctx);
    w.drv.track_probe = track_probe;
    let mut sc = C17Scen::build(&mut w, o);
    for e in extra {
        sc.b.oracles.push(e);
    }
    w.run(&mut sc);
    (w, sc)
}

fn finish(mut w: World, sc: C17Scen) -> RunOut {
    end_checks(&mut w, &sc);
    let cfg = format!(
        "mode={:?} t2={} alt={:?} lowered={} late_accept={:?} close_first={} retry={:?} had_0rtt={} server={:?} client={:?} net={:?} fault_end_ms={}",
        sc.mode,
        crate::world::fmt_t(sc.t2),
        sc.alt,
        sc.lowered,
        sc.late_accept,
        sc.close_first,
        (sc.b.retry_first, sc.retry2),
        sc.had_0rtt,
        sc.b.server_knobs,
        sc.b.client_knobs,
        w.net,
        sc.b.fault_end / 1_000_000
    );
    if let Some(sec) = sc.second {
        let peer = w.conns[sec as usize].peer;
        let n = w.tap.lock().unwrap().pkts.iter().filter(|p| !p.enc && p.ok && p.space == Space::ZeroRtt && p.inc == peer).count();
        if n > 0 {
            w.probes.hit("server_opened_0rtt_packets");
        }
        match sc.b.wl.sides.get(&sec).and_then(|s| s.early_accepted) {
            Some(true) => w.probes.hit("early_accepted"),
            Some(false) => w.probes.hit("early_rejected"),
            None => {}
        }
        if sc.mode == Mode::Accept && sc.b.wl.sides.get(&sec).and_then(|s| s.early_accepted) == Some(false) {
            w.probes.hit("accept_mode_but_rejected");
        }
    }
    let mut o = RunOut::from_world(&mut w);
    o.config = cfg;
    if let Some(s) = sc.second.and_then(|i| sc.b.wl.sides.get(&i)) {
        o.stats.insert("early_bytes_rejected", s.early_bytes_rejected as f64);
        o.stats.insert("early_streams", s.early_streams as f64);
    }
    let _ = (Side::Client, SEC);
    o
}

fn opts(accept_weight: u32, basic: BasicOpts) -> C17Opts {
    C17Opts { basic, accept_weight }
}

fn fam_mixed(ch: Chooser, ctx: &RunCtx) -> RunOut {
    let (w, sc) = run_scen(ch, ctx, opts(50, BasicOpts { op_kinds: vec![1, 2, 3, 4, 0, 0], ops_max: 4, retry: 300, size_max: 30_000, ..Default::default() }), vec![], false);
    finish(w, sc)
}

fn fam_clean(ch: Chooser, ctx: &RunCtx) -> RunOut {
    let (w, sc) = run_scen(ch, ctx, opts(50, BasicOpts { op_kinds: vec![1], ops_max: 1, retry: 300, fault_phase_max_ms: 0, size_max: 60_000, ..Default::default() }), vec![], false);
    finish(w, sc)
}

fn fam_directed(ch: Chooser, ctx: &RunCtx) -> RunOut {
    // loss of chosen datagrams among the first ones of the *second* handshake is drawn through
    // the fault phase beginning exactly at the second connect with a high drop rate
    let (w, sc) = run_scen(ch, ctx, opts(60, BasicOpts { op_kinds: vec![1], ops_max: 1, retry: 400, fault_phase_max_ms: 600, max_drop: 400, allow_ce: false, allow_late: false, size_max: 10_000, streams_max: 4, ..Default::default() }), vec![], false);
    finish(w, sc)
}

/// early data far beyond the congestion window, many resets: frames are still queued when the
/// handshake completes
fn fam_backlog(ch: Chooser, ctx: &RunCtx) -> RunOut {
    let (w, sc) = run_scen(ch, ctx, opts(35, BasicOpts { op_kinds: vec![1], ops_max: 1, retry: 200, size_max: 200_000, streams_max: 8, reset_rate: 400, harness_cc_rate: 400, fault_phase_max_ms: 1500, ..Default::default() }), vec![], false);
    finish(w, sc)
}

fn fam_credit(ch: Chooser, ctx: &RunCtx) -> RunOut {
    let mut w = World::from_ctx(ch, ctx);
    let mut sc = C17Scen::build(&mut w, opts(30, BasicOpts { op_kinds: vec![1], ops_max: 1, retry: 200, size_max: 40_000, ..Default::default() }));
    sc.b.oracles.push(Box::new(CreditFor2 { inner: super::c05::CreditOracle::new(sc.b.server_knobs.clone(), sc.b.client_knobs.clone()), k2: sc.alt.clone().unwrap_or_else(|| sc.b.server_knobs.clone()), skip: sc.mode == Mode::Accept && sc.lowered }));
    w.run(&mut sc);
    finish(w, sc)
}

/// the C05 credit ledger, told which connection is the second one as soon as it exists
struct CreditFor2 {
    inner: super::c05::CreditOracle,
    k2: TKnobs,
    skip: bool,
}

impl Oracle for CreditFor2 {
    fn after_step(&mut self, w: &mut World, wl: &crate::app::Workload) {
        if self.inner.second.is_none() {
            // the second connection is the client connection created last (after the first)
            let clients: Vec<u32> = w.conns.iter().filter(|c| c.side == Side::Client).map(|c| c.inc).collect();
            if clients.len() >= 2 {
                self.inner.second = Some((clients[1], self.k2.clone(), self.skip));
            }
        }
        self.inner.after_step(w, wl);
    }
}

pub fn spec() -> PropSpec {
    PropSpec {
        id: "C17",
        families: vec![
            Family { name: "mixed", f: fam_mixed, weight: 35 },
            Family { name: "clean", f: fam_clean, weight: 15 },
            Family { name: "directed", f: fam_directed, weight: 20 },
            Family { name: "backlog", f: fam_backlog, weight: 15 },
            Family { name: "credit", f: fam_credit, weight: 15 },
        ],
        quick_worlds: 120_000,
        thorough_worlds: 2_400_000,
        panic_is_violation: true,
        rule: "each world = one seeded execution: a first connection on a clean network (ticket), then a second connection whose client application starts before the handshake completes; server behaviour for the second connection drawn from accept / refuse-with-resumption / refuse-without-resumption x same or different transport parameters x Retry x late accept; fault phase (loss, duplication, reordering, ECN, late timers) begins at the second connect; non-trivial = a fault fired or the second connection had 0-RTT keys; distinct = distinct abstract-event signature",
        assumptions: vec![
            "early streams use their own data-pattern key epoch: early bytes delivered after a rejection cannot match the post-rejection ledger",
            "a server that accepts early data while lowering limits is misbehaving; the client closing with PROTOCOL_VIOLATION is the required outcome there and is not judged further",
            "rustls may refuse early data for its own reasons even in accept mode: only 'accepted by a refusing server' is a violation, the reverse is counted",
        ],
        real: super::REAL.to_vec(),
        stub: super::STUB.to_vec(),
    }
}
