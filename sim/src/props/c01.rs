//! C01 — stream data is delivered reliably, in order and exactly once.

use crate::chooser::Chooser;
use crate::runner::{Family, PropSpec, RunCtx, RunOut};
use crate::scen::{Basic, BasicOpts};
use crate::world::World;

pub fn end_checks(w: &mut World, sc: &Basic, require_completion: bool) {
    if !w.violations.is_empty() {
        return;
    }
    // unexpected connection loss between honest peers
    for c in &w.conns {
        for r in &c.lost {
            use quinn_proto::ConnectionError as E;
            let legit = match r {
                E::VersionMismatch => w.faults.m.contains_key("corrupt"),
                E::TimedOut => !sc.opts.idle_off,
                E::ApplicationClosed(_) => w.faults.m.contains_key("app_close"),
                E::LocallyClosed => true,
                _ => false,
            };
            if !legit {
                let (k, d) = ("unexpected-connection-loss".to_string(), format!("inc{} ({:?}) lost: {}", c.inc, c.side, r));
                w.violate(k, d);
                return;
            }
        }
    }
    if require_completion && sc.completed_at.is_none() && w.hit_limit.is_none() {
        if let Some(r) = sc.wl.incomplete_reason(w) {
            let quiescent = w.queue.is_empty();
            w.violate("finished-stream-never-delivered", format!("{} ({}; clean phase began at {}, now {})", r, if quiescent { "world is quiescent: nothing can ever happen again" } else { "clean-phase budget exhausted" }, crate::world::fmt_t(sc.fault_end), crate::world::fmt_t(w.now)));
        }
    }
}

pub fn feasible(opts: &mut BasicOpts, sc_knobs: (&crate::cfgs::TKnobs, &crate::cfgs::TKnobs)) {
    let _ = (opts, sc_knobs);
}

fn run_basic(ch: Chooser, ctx: &RunCtx, mut opts: BasicOpts) -> RunOut {
    let mut w = World::from_ctx(ch, ctx);
    opts.op_kinds = vec![0, 1, 2, 3, 4, 5, 6, 7, 9];
    // some readers come back to a stream only some milliseconds after they were notified:
    // retransmitted, duplicated and reordered fragments pile up in the receive buffer
    opts.wl.lazy = 250;
    opts.wl.unordered = 300;
    let mut sc = Basic::build(&mut w, opts);
    w.run(&mut sc);
    // liveness (a finished stream that is never delivered) is judged by C02; C01 judges every
    // byte that *is* delivered and every terminal outcome that *is* reported
    end_checks(&mut w, &sc, false);
    let mut o = RunOut::from_world(&mut w);
    o.config = format!("server={:?} client={:?} net={:?} fault_end_ms={} retry={} ops={:?}", sc.server_knobs, sc.client_knobs, w.net, sc.fault_end / 1_000_000, sc.retry_first, sc.ops);
    o.stats.insert("completion_after_clean_ms", sc.completed_at.map_or(-1.0, |t| (t.saturating_sub(sc.fault_end)) as f64 / 1e6));
    o
}

fn fam_pair(ch: Chooser, ctx: &RunCtx) -> RunOut {
    run_basic(ch, ctx, BasicOpts::default())
}

fn fam_clean(ch: Chooser, ctx: &RunCtx) -> RunOut {
    run_basic(ch, ctx, BasicOpts { fault_phase_max_ms: 0, ..Default::default() })
}

fn fam_multi(ch: Chooser, ctx: &RunCtx) -> RunOut {
    run_basic(ch, ctx, BasicOpts { n_clients: 2, conns_per_client: 2, streams_max: 4, size_max: 20_000, ..Default::default() })
}

fn fam_big(ch: Chooser, ctx: &RunCtx) -> RunOut {
    run_basic(ch, ctx, BasicOpts { streams_max: 2, size_max: 1_500_000, max_drop: 100, ..Default::default() })
}

pub fn spec() -> PropSpec {
    PropSpec {
        id: "C01",
        families: vec![
            Family { name: "pair", f: fam_pair, weight: 60 },
            Family { name: "clean", f: fam_clean, weight: 10 },
            Family { name: "multi", f: fam_multi, weight: 25 },
            Family { name: "big", f: fam_big, weight: 5 },
        ],
        quick_worlds: 160_000,
        thorough_worlds: 2_400_000,
        panic_is_violation: false,
        rule: "each world = one seeded execution (choice list) of 1-4 connections with an event-driven stream workload on both peers under a seeded fault schedule; non-trivial = at least one fault fired or more than one connection; distinct = distinct abstract-event signature (sequence of event kinds / routing outcomes / auxiliary operations, no sizes or times)",
        assumptions: vec!["oracle compares every delivered chunk with a keyed data pattern and the sending application's own ledger", "ciphertext bytes are not part of the model (rustls/ring randomness only affects ciphertext)"],
        real: super::REAL.to_vec(),
        stub: super::STUB.to_vec(),
    }
}
