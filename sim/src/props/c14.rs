//! C14 — validation tokens and Retry cannot be forged, moved or replayed.
//!
//! A world holds two server endpoints with different token keys and a handful of client
//! endpoints (some sharing an IP address) that share one token store. A drawn history of
//! connection attempts runs against them: each attempt connects from a drawn client address and
//! presents either whatever the shared `TokenMemoryCache` hands out, no token, a verbatim copy of
//! any token the harness has seen on the wire so far (Retry tokens read from Retry packets,
//! NEW_TOKEN tokens read from the tap's plaintext), or a mutation of one (bit flip, truncation,
//! extension, splice of two tokens, random bytes). The presented token is injected through a
//! custom `TokenStore`. The servers' clock (`TimeSource`) is the world's virtual clock plus a
//! monotone skew that jumps at drawn instants; clients may be rebound and the clock may jump
//! between a Retry and the Initial that answers it.
//!
//! Server-side oracle (reference model over the ledger of issued tokens): for every Initial that
//! reaches a server's first-packet path the model classifies the token from the ledger alone —
//! which server issued it, to which address, when (server clock), of which kind, and whether it
//! was accepted before — and compares with what the endpoint did: `Incoming` validated or not
//! (and with which original destination CID), or the attempt refused.
//!
//! Client-side oracles: a client's Initial may change its token / destination CID only in answer
//! to a Retry whose integrity tag verifies, that arrived before any other server packet was
//! processed, and only once (the harness injects single-bit corruptions of genuine Retry packets,
//! and forged Retry packets with a *valid* tag at drawn instants); a handshake completes only if
//! the connection IDs the server echoes in its transport parameters (corrupted through the tap
//! in some worlds) are the ones actually used; the token store hands out each stored token at
//! most once.
//!
//! Two further families drive `BloomTokenLog` and `TokenMemoryCache` directly through drawn
//! histories (clock values rolling the filter periods, capacities down to zero) against
//! reference sets.

use std::collections::{BTreeMap, BTreeSet, HashSet};
use std::net::SocketAddr;
use std::sync::{Arc, Mutex};
use std::time::{Duration, SystemTime};

use bytes::Bytes;
use quinn_proto::{BloomTokenLog, ConnectionError, ConnectionId, Endpoint, Event, Incoming, NoneTokenLog, TokenLog, TokenMemoryCache, TokenReuseError, TokenStore, ValidationTokenConfig, VarInt};

use crate::cfgs::{self, EpOpts, SimTime, TKnobs};
use crate::chooser::Chooser;
use crate::runner::{Family, PropSpec, RunCtx, RunOut};
use crate::scen::TAG_USER;
use crate::tap::NO_INC;
use crate::util::hex;
use crate::wire::{self, Frame, LongType, PublicHeader, Space};
use crate::world::{IncomingAction, Ns, Routed, Scenario, World, MS, SEC};

const TAG_ATTEMPT: u64 = TAG_USER + (1 << 20);
const TAG_CLOSE: u64 = TAG_USER + (2 << 20);
const TAG_JUMP: u64 = TAG_USER + (3 << 20);
const TAG_FORGE: u64 = TAG_USER + (4 << 20);
const TAG_END: u64 = TAG_USER + (5 << 20);

// ------------------------------------------------------------------------------------------
// instrumented seams
// ------------------------------------------------------------------------------------------

/// Exact reference `TokenLog`: a set of nonces
#[derive(Default)]
struct ExactLog(Mutex<HashSet<u128>>);
impl TokenLog for ExactLog {
    fn check_and_insert(&self, nonce: u128, _issued: SystemTime, _lifetime: Duration) -> Result<(), TokenReuseError> {
        if self.0.lock().unwrap().insert(nonce) {
            Ok(())
        } else {
            Err(TokenReuseError)
        }
    }
}

#[derive(Default)]
struct StoreLog {
    inserted: Vec<(String, Vec<u8>)>,
    /// tokens the inner store handed out (scripted ones are not the store's doing)
    taken: Vec<(String, Vec<u8>)>,
}

/// `TokenStore` handed to every client: delegates to the real store and records what it does,
/// unless the harness scripted the token of the next attempt
struct ScriptStore {
    inner: Arc<dyn TokenStore>,
    script: Mutex<Option<Option<Vec<u8>>>>,
    log: Mutex<StoreLog>,
}
impl TokenStore for ScriptStore {
    fn insert(&self, server_name: &str, token: Bytes) {
        self.log.lock().unwrap().inserted.push((server_name.to_string(), token.to_vec()));
        self.inner.insert(server_name, token)
    }
    fn take(&self, server_name: &str) -> Option<Bytes> {
        if let Some(s) = self.script.lock().unwrap().take() {
            return s.map(Bytes::from);
        }
        let t = self.inner.take(server_name);
        if let Some(t) = &t {
            self.log.lock().unwrap().taken.push((server_name.to_string(), t.to_vec()));
        }
        t
    }
}

// ------------------------------------------------------------------------------------------
// ledger
// ------------------------------------------------------------------------------------------

#[derive(Clone, Debug)]
enum TokKind {
    Retry { addr: SocketAddr, odcid: Vec<u8> },
    Validation { ip: std::net::IpAddr },
}

#[derive(Clone, Debug)]
struct TokRec {
    bytes: Vec<u8>,
    server: u32,
    kind: TokKind,
    /// server clock (ns since the clock's base) while the token was made
    issued: u64,
    /// a validation token the server has accepted (validated an address with) already
    accepted: bool,
}

#[derive(Clone, Copy, Debug, PartialEq, Eq)]
enum Tri {
    Must,
    MustNot,
    Either,
}

#[derive(Clone, Debug)]
enum Expect {
    /// no usable token: the Incoming is not validated
    Absent,
    /// Retry token: validated (with this original destination CID) / refused / borderline
    Retry { valid: Tri, odcid: Vec<u8> },
    /// NEW_TOKEN token: validated or not
    Validation { valid: Tri, idx: usize },
}

#[derive(Clone, Debug)]
struct Attempt {
    at: Ns,
    client: usize,
    server: usize,
    /// 0 store, 1 none, 2 replay, 3 mutate
    tok_mode: u32,
    inc: Option<u32>,
    presented: Vec<u8>,
    connected: bool,
    lost: Option<String>,
    lost_code: Option<u64>,
    /// destination CID of the first Initial
    first_dcid: Option<Vec<u8>>,
    /// (dcid, token) of the latest Initial seen
    cur: Option<(Vec<u8>, Vec<u8>)>,
    /// the Retry this client followed: (scid, token)
    followed: Option<(Vec<u8>, Vec<u8>)>,
    /// the model expects the server to refuse the attempt with INVALID_TOKEN
    expect_invalid: bool,
    /// server connections created from Initials of this attempt (a retransmitted pre-Retry
    /// Initial may create one next to the real one): (server inc, CIDs echoed correctly,
    /// CID-echo parameters corrupted in transit)
    accepts: Vec<(u32, bool, bool)>,
    /// a forged / corrupted Retry or a rebind / clock jump interfered: outcome not judged
    disturbed: bool,
}

struct RetrySeen {
    scid: Vec<u8>,
    token: Vec<u8>,
    tag_ok: bool,
    /// the client had processed a server packet before this Retry arrived
    late: bool,
}

pub struct TokScen {
    servers: Vec<u32>,
    server_addrs: Vec<SocketAddr>,
    clients: Vec<u32>,
    client_cfgs: Vec<quinn_proto::ClientConfig>,
    store: Arc<ScriptStore>,
    clock: Arc<SimTime>,
    skew: u64,
    /// clock value the servers saw during the step being judged
    clock_now: u64,
    retry_lifetime: u64,
    validation_lifetime: u64,
    /// 0 exact, 1 bloom default, 2 tiny bloom, 3 none
    log_kind: u32,
    /// servers send a Retry to unvalidated clients
    use_retry: bool,
    lossless: bool,
    attempts: Vec<Attempt>,
    by_inc: BTreeMap<u32, usize>,
    ledger: Vec<TokRec>,
    ledger_idx: BTreeMap<Vec<u8>, usize>,
    dg_seen: usize,
    pk_seen: usize,
    hd_seen: usize,
    /// Retry packets delivered to a client connection
    retries: BTreeMap<u32, Vec<RetrySeen>>,
    /// after a Retry went out: rebind the client (0 none, 1 port, 2 address) / jump the clock
    disturb_retry: u32,
    /// inject corrupted copies of Retry packets / forged Retry packets
    corrupt_retry: bool,
    forge: Vec<(Ns, u32)>,
    crypto: Arc<dyn quinn_proto::crypto::ServerConfig>,
    end_at: Ns,
    linger: Ns,
    n_sessions: Arc<Mutex<u32>>,
    tp_target: Option<(u32, u32)>,
    tp_hit: Arc<Mutex<bool>>,
    /// (attempt, CIDs echoed truthfully) of the Incoming being resolved
    pending_accept: Option<(usize, bool)>,
}

fn first_initial(bytes: &[u8]) -> Option<(Vec<u8>, Vec<u8>, Vec<u8>)> {
    match wire::public_header(bytes, 8) {
        Ok(PublicHeader::Long { ty: LongType::Initial, dcid, scid, token, .. }) => Some((dcid, scid, token)),
        _ => None,
    }
}

impl TokScen {
    fn clock_ns(&self) -> u64 {
        self.clock_now
    }

    fn classify(&self, server: u32, token: &[u8], src: SocketAddr) -> Expect {
        let Some(&i) = self.ledger_idx.get(token) else { return Expect::Absent };
        let r = &self.ledger[i];
        if r.server != server {
            // (both servers use different keys: the other one's tokens mean nothing here)
            return Expect::Absent;
        }
        let now = self.clock_ns();
        let in_life = |life: u64| {
            if now > r.issued + life {
                Tri::MustNot
            } else if now + SEC <= r.issued + life {
                // (the issue time is stored in whole seconds)
                Tri::Must
            } else {
                Tri::Either
            }
        };
        match &r.kind {
            TokKind::Retry { addr, odcid } => {
                let valid = if *addr != src { Tri::MustNot } else { in_life(self.retry_lifetime) };
                Expect::Retry { valid, odcid: odcid.clone() }
            }
            TokKind::Validation { ip } => {
                let valid = if *ip != src.ip() || r.accepted || self.log_kind == 3 {
                    Tri::MustNot
                } else {
                    match in_life(self.validation_lifetime) {
                        // (a TokenLog may refuse a token it has never seen: a bloom filter by
                        // construction, and BloomTokenLog also refuses every token issued
                        // before the first one it was shown after a long pause. Only the exact
                        // reference log makes acceptance mandatory.)
                        Tri::Must if self.log_kind != 0 => Tri::Either,
                        x => x,
                    }
                };
                Expect::Validation { valid, idx: i }
            }
        }
    }

    fn add_token(&mut self, rec: TokRec) {
        if !self.ledger_idx.contains_key(&rec.bytes) {
            self.ledger_idx.insert(rec.bytes.clone(), self.ledger.len());
            self.ledger.push(rec);
        }
    }

    fn draw_token(&mut self, w: &mut World, mode: u32) -> Option<Vec<u8>> {
        if self.ledger.is_empty() {
            return match mode {
                3 => Some((0..w.ch.range("c14.rand_len", 0, 60)).map(|_| w.ch.choose("c14.rand_byte", 256) as u8).collect()),
                _ => None,
            };
        }
        let n = self.ledger.len() as u32;
        // (newest first: 0 is the benign default)
        let i = (n - 1 - w.ch.choose("c14.tok_idx", n)) as usize;
        let t = self.ledger[i].bytes.clone();
        if mode == 2 {
            return Some(t);
        }
        let mut m = t.clone();
        match w.ch.choose("c14.mut_kind", 7) {
            0 => {
                let bit = w.ch.choose("c14.mut_bit", (m.len() * 8) as u32) as usize;
                m[bit / 8] ^= 1 << (bit % 8);
            }
            1 => {
                let cut = 1 + w.ch.choose("c14.mut_cut", m.len() as u32) as usize;
                m.truncate(m.len() - cut.min(m.len()));
            }
            2 => {
                let k = 1 + w.ch.choose("c14.mut_ext", 8);
                for _ in 0..k {
                    m.push(w.ch.choose("c14.mut_ext_byte", 256) as u8);
                }
            }
            3 => {
                // splice: sealed part of this token, nonce of another one
                let j = w.ch.choose("c14.mut_other", n) as usize;
                let o = &self.ledger[j].bytes;
                if o.len() >= 16 && m.len() >= 16 && j != i {
                    let l = m.len();
                    m[l - 16..].copy_from_slice(&o[o.len() - 16..]);
                } else {
                    m[0] ^= 0x80;
                }
            }
            4 => {
                // splice: prefix of this one, suffix of another
                let j = w.ch.choose("c14.mut_other2", n) as usize;
                let o = self.ledger[j].bytes.clone();
                let cut = w.ch.choose("c14.mut_cut2", m.len() as u32) as usize;
                m.truncate(cut);
                m.extend_from_slice(&o[cut.min(o.len())..]);
                if m == t {
                    m.push(0);
                }
            }
            5 => {
                m = (0..w.ch.range("c14.rand_len2", 0, 80)).map(|_| w.ch.choose("c14.rand_byte2", 256) as u8).collect();
            }
            _ => {
                // prepend
                m.insert(0, w.ch.choose("c14.mut_pre", 256) as u8);
            }
        }
        if self.ledger_idx.contains_key(&m) {
            m.push(0x5a);
        }
        Some(m)
    }

    fn start_attempt(&mut self, w: &mut World, k: usize) {
        let (client, server, mode) = (self.attempts[k].client, self.attempts[k].server, self.attempts[k].tok_mode);
        let scripted = match mode {
            0 => None,
            1 => Some(None),
            m => Some(self.draw_token(w, m)),
        };
        if let Some(s) = &scripted {
            *self.store.script.lock().unwrap() = Some(s.clone());
        }
        let node = self.clients[client];
        let cfg = self.client_cfgs[client].clone();
        match w.connect(node, cfg, self.server_addrs[server], "localhost") {
            Ok(inc) => {
                self.attempts[k].inc = Some(inc);
                self.by_inc.insert(inc, k);
                w.probes.hit(match mode {
                    0 => "attempt_token_from_store",
                    1 => "attempt_without_token",
                    2 => "attempt_replayed_token",
                    _ => "attempt_mutated_token",
                });
            }
            Err(e) => w.violate("connect-failed", format!("{:?}", e)),
        }
        // (a scripted token the endpoint did not ask for must not leak into the next attempt)
        *self.store.script.lock().unwrap() = None;
    }

    fn judge_incoming(&mut self, w: &mut World, node: u32, incoming: &Incoming, dgram: u32) -> IncomingAction {
        let d = &w.dgrams[dgram as usize];
        let src = d.src;
        let Some((dcid, _scid, token)) = first_initial(&d.bytes) else {
            return IncomingAction::Accept;
        };
        let exp = if token.is_empty() { Expect::Absent } else { self.classify(node, &token, src) };
        let validated = incoming.remote_address_validated();
        let what = || format!("Initial dgram#{} from {} dcid={} token={} ({} bytes), server clock {}s", dgram, src, hex(&dcid), hex(&token[..token.len().min(24)]), token.len(), self.clock_now / SEC);
        let mut problem: Option<(&'static str, String)> = None;
        match &exp {
            Expect::Absent => {
                if validated {
                    problem = Some(("address-validated-by-unusable-token", format!("{}: the token is {} yet the Incoming reports a validated address", what(), if token.is_empty() { "empty".to_string() } else if self.ledger_idx.contains_key(&token) { "one another server issued".to_string() } else { "not one any server issued (altered / random)".to_string() })));
                } else if incoming.orig_dst_cid().as_ref() != &dcid[..] {
                    problem = Some(("original-dcid-taken-from-unusable-token", format!("{}: original destination CID reported as {}", what(), incoming.orig_dst_cid())));
                }
                if !token.is_empty() {
                    w.probes.hit("unusable_token_treated_as_absent");
                }
            }
            Expect::Retry { valid, odcid } => match valid {
                Tri::MustNot => problem = Some(("stale-or-misplaced-retry-token-not-refused", format!("{}: a Retry token that is expired or was issued to another address must end the attempt with INVALID_TOKEN, yet an Incoming (validated={}) was produced", what(), validated))),
                _ => {
                    if !validated {
                        if *valid == Tri::Must {
                            problem = Some(("genuine-retry-token-not-honoured", format!("{}: the Retry token is genuine, fresh and presented from the address it was issued to, yet the address is not validated", what())));
                        }
                    } else if incoming.orig_dst_cid().as_ref() != &odcid[..] {
                        problem = Some(("retry-token-original-dcid-wrong", format!("{}: original destination CID {} but the token was issued for {}", what(), incoming.orig_dst_cid(), hex(odcid))));
                    } else if incoming.may_retry() {
                        problem = Some(("retry-permitted-after-retry", format!("{}: may_retry() on an Incoming validated by a Retry token", what())));
                    } else {
                        w.probes.hit("retry_token_validated");
                    }
                }
            },
            Expect::Validation { valid, idx } => {
                let r = &self.ledger[*idx];
                if validated && *valid == Tri::MustNot {
                    let TokKind::Validation { ip } = &r.kind else { unreachable!() };
                    let why = if *ip != src.ip() { format!("it was issued to {}", ip) } else if r.accepted { "it has been accepted before".to_string() } else if self.log_kind == 3 { "the token log accepts nothing".to_string() } else { format!("it was issued at {}s with a lifetime of {}s", r.issued / SEC, self.validation_lifetime / SEC) };
                    problem = Some(("address-validated-by-unusable-token", format!("{}: validated by a NEW_TOKEN token although {}", what(), why)));
                } else if !validated && *valid == Tri::Must {
                    problem = Some(("genuine-validation-token-not-honoured", format!("{}: the NEW_TOKEN token is genuine, within its lifetime, unused and presented from the IP address it was issued to, yet the address is not validated", what())));
                } else if validated {
                    if incoming.orig_dst_cid().as_ref() != &dcid[..] {
                        problem = Some(("original-dcid-taken-from-unusable-token", format!("{}: original destination CID reported as {}", what(), incoming.orig_dst_cid())));
                    }
                    w.probes.hit("validation_token_validated");
                } else {
                    w.probes.hit(if r.accepted { "validation_token_reuse_refused" } else { "validation_token_not_honoured" });
                }
                if validated {
                    self.ledger[*idx].accepted = true;
                }
            }
        }
        if let Some((k, d)) = problem {
            w.violate(k, d);
            return IncomingAction::Ignore;
        }
        // what the client can expect from the transport parameters of this connection
        let origin = w.dgrams[dgram as usize].origin_inc;
        if let Some(&a) = self.by_inc.get(&origin) {
            if w.dgrams[dgram as usize].genuine {
                let at = &self.attempts[a];
                let by_retry = validated && matches!(exp, Expect::Retry { .. });
                let odcid_ok = at.first_dcid.as_deref() == Some(incoming.orig_dst_cid().as_ref());
                let retry_ok = if by_retry { at.followed.as_ref().is_some_and(|(scid, _)| scid[..] == dcid[..]) } else { at.followed.is_none() };
                self.pending_accept = Some((a, odcid_ok && retry_ok));
            }
        }
        if self.use_retry && !validated && incoming.may_retry() {
            IncomingAction::Retry
        } else {
            IncomingAction::Accept
        }
    }

    fn scan(&mut self, w: &mut World) {
        // NEW_TOKEN frames sealed by servers; packets opened by clients
        let mut new_tokens = Vec::new();
        let mut client_initials: Vec<(u32, Vec<u8>, Vec<u8>)> = Vec::new();
        {
            let tap = w.tap.lock().unwrap();
            for p in &tap.pkts[self.pk_seen..] {
                if p.enc && p.space == Space::Initial && self.by_inc.contains_key(&p.inc) {
                    if let Ok(h) = wire::plain_header(&p.header) {
                        client_initials.push((p.inc, h.dcid, h.token));
                    }
                }
                if p.enc && p.space == Space::OneRtt && p.inc != NO_INC && (p.inc as usize) < w.conns.len() && self.servers.contains(&p.node) {
                    let (fr, _) = wire::frames(&p.payload);
                    for f in fr {
                        if let Frame::NewToken { token } = f {
                            new_tokens.push((p.node, p.inc, token));
                        }
                    }
                }
            }
            self.pk_seen = tap.pkts.len();
        }
        for (node, inc, token) in new_tokens {
            let ip = w.conns[inc as usize].conn.remote_address().ip();
            self.add_token(TokRec { bytes: token, server: node, kind: TokKind::Validation { ip }, issued: self.clock_now, accepted: false });
            w.probes.hit("validation_token_issued");
        }
        // datagrams handled
        for i in self.hd_seen..w.handled.len() {
            let h = w.handled[i].clone();
            let d = &w.dgrams[h.dgram as usize];
            if self.servers.contains(&h.node) {
                // first packets that produced no Incoming
                if matches!(h.routed, Routed::Response(_) | Routed::None) {
                    if let Some((dcid, _, token)) = first_initial(&d.bytes) {
                        if !d.genuine || token.is_empty() {
                            continue;
                        }
                        let exp = self.classify(h.node, &token, d.src);
                        let refused_ok = matches!(&exp, Expect::Retry { valid, .. } if *valid != Tri::Must);
                        if matches!(h.routed, Routed::Response(_)) && !refused_ok && self.lossless {
                            w.violate("attempt-refused-although-token-usable-or-absent", format!("Initial dgram#{} from {} dcid={} token {}B: the server answered without creating an Incoming, but the model classifies the token as {:?}", h.dgram, d.src, hex(&dcid), token.len(), exp));
                            return;
                        }
                        if matches!(h.routed, Routed::Response(_)) && refused_ok {
                            w.probes.hit("retry_token_refused_invalid_token");
                            if let Some(&a) = self.by_inc.get(&d.origin_inc) {
                                self.attempts[a].expect_invalid = true;
                            }
                        }
                    }
                }
            } else if let Routed::Conn(inc) = h.routed {
                if let Ok(PublicHeader::Long { ty: LongType::Retry, scid, token, .. }) = wire::public_header(&d.bytes, 8) {
                    if token.len() >= 16 {
                        if let Some(&a) = self.by_inc.get(&inc) {
                            let odcid = self.attempts[a].first_dcid.clone().unwrap_or_default();
                            let body = &d.bytes[..d.bytes.len() - 16];
                            let tag = self.crypto.retry_tag(1, ConnectionId::new(&odcid), body);
                            let tag_ok = tag[..] == d.bytes[d.bytes.len() - 16..];
                            let late = {
                                let tap = w.tap.lock().unwrap();
                                tap.pkts.iter().any(|p| !p.enc && p.ok && p.inc == inc)
                            };
                            self.retries.entry(inc).or_default().push(RetrySeen { scid, token: token[..token.len() - 16].to_vec(), tag_ok, late });
                            if !tag_ok {
                                w.probes.hit("retry_with_bad_tag_delivered");
                            } else if late {
                                w.probes.hit("retry_after_server_packet_delivered");
                            }
                        }
                    }
                }
            }
        }
        self.hd_seen = w.handled.len();
        // Initial packets sealed by clients (read from the tap: the wire may corrupt them)
        for (inc, dcid, token) in client_initials {
            let a = self.by_inc[&inc];
            let at = &mut self.attempts[a];
            if at.first_dcid.is_none() {
                at.first_dcid = Some(dcid.clone());
                at.presented = token.clone();
            }
            let new = (dcid.clone(), token.clone());
            if let Some(old) = at.cur.clone() {
                // (the destination CID alone changes once the server's Initial has been
                // processed: that is the ordinary switch to the server's source CID)
                if old.1 != new.1 {
                    // the client changed its token: only a proper Retry may cause that
                    // (the best of the matching ones delivered so far: a corrupted copy may
                    // share source CID and token with the genuine packet)
                    let just = self.retries.get(&inc).and_then(|v| {
                        let m: Vec<&RetrySeen> = v.iter().filter(|r| r.scid == dcid && r.token == token).collect();
                        m.iter().find(|r| r.tag_ok && !r.late).or(m.iter().find(|r| r.tag_ok)).or(m.first()).copied()
                    });
                    let problem = match just {
                        None => Some(("initial-changed-without-retry", format!("inc{} changed its Initial from dcid={} token={}B to dcid={} token={}B although no Retry with that source CID and token was delivered to it", inc, hex(&old.0), old.1.len(), hex(&dcid), token.len()))),
                        Some(r) if r.late => Some(("retry-followed-after-server-packet", format!("inc{} follows a Retry (scid={}) that arrived after it had processed another packet from the server", inc, hex(&r.scid)))),
                        Some(r) if !r.tag_ok => Some(("retry-followed-despite-bad-integrity-tag", format!("inc{} follows a Retry (scid={}) whose integrity tag does not verify", inc, hex(&r.scid)))),
                        Some(_) if at.followed.is_some() => Some(("second-retry-followed", format!("inc{} follows a second Retry (scid={})", inc, hex(&dcid)))),
                        Some(_) => None,
                    };
                    if let Some((k, dsc)) = problem {
                        w.violate(k, dsc);
                        return;
                    }
                    at.followed = Some(new.clone());
                    w.probes.hit("retry_followed");
                }
            }
            at.cur = Some(new);
        }
        // datagrams put on the wire
        for id in self.dg_seen..w.dgrams.len() {
            let d = &w.dgrams[id];
            if !d.genuine || d.parent != d.id {
                continue;
            }
            let Ok(h) = wire::public_header(&d.bytes, 8) else { continue };
            let PublicHeader::Long { ty, dcid, scid, token, .. } = h else { continue };
            if let Some(si) = self.servers.iter().position(|n| *n == d.origin_node) {
                if ty == LongType::Retry && token.len() >= 16 {
                    let tok = token[..token.len() - 16].to_vec();
                    // the Initial that drew it is the datagram handled in this step
                    let odcid = if w.step_dgram != u32::MAX { first_initial(&w.dgrams[w.step_dgram as usize].bytes).map(|x| x.0) } else { None };
                    let (dst, bytes) = (d.dst, d.bytes.clone());
                    if let Some(odcid) = odcid {
                        self.add_token(TokRec { bytes: tok, server: self.servers[si], kind: TokKind::Retry { addr: dst, odcid }, issued: self.clock_now, accepted: false });
                        w.probes.hit("retry_token_issued");
                        self.on_retry_sent(w, id as u32, dst, &bytes, &dcid);
                    }
                }
            }
        }
        self.dg_seen = w.dgrams.len();
    }

    /// a server just sent a Retry: interfere in the ways the scenario drew
    fn on_retry_sent(&mut self, w: &mut World, id: u32, dst: SocketAddr, bytes: &[u8], _dcid: &[u8]) {
        let client_node = self.clients.iter().copied().find(|n| w.nodes[*n as usize].addr == dst);
        let attempt = w.step_dgram != u32::MAX && true;
        let _ = attempt;
        let origin = if w.step_dgram != u32::MAX { w.dgrams[w.step_dgram as usize].origin_inc } else { NO_INC };
        match self.disturb_retry {
            1 | 2 => {
                if let Some(n) = client_node {
                    if w.ch.chance("c14.rebind_after_retry", 1, 2) {
                        let old = w.nodes[n as usize].addr;
                        let new = if self.disturb_retry == 1 { SocketAddr::new(old.ip(), old.port() + 1000) } else { cfgs::addr(60 + n, 0) };
                        w.rebind(n, new);
                        // every other attempt in progress on that endpoint loses packets
                        for a in self.attempts.iter_mut() {
                            if let Some(i) = a.inc {
                                if i != origin && !a.connected && a.lost.is_none() && w.conns[i as usize].node == n {
                                    a.disturbed = true;
                                }
                            }
                        }
                        w.faults.hit(if self.disturb_retry == 1 { "client_port_changed_after_retry" } else { "client_address_changed_after_retry" });
                    }
                }
            }
            3 => {
                if w.ch.chance("c14.jump_after_retry", 1, 2) {
                    self.skew += self.retry_lifetime + *w.ch.pick("c14.jump_extra", &[SEC, 0, 100 * MS, 2 * SEC, 60 * SEC]);
                    w.faults.hit("clock_jump_after_retry");
                }
            }
            _ => {}
        }
        if self.corrupt_retry && w.ch.chance("c14.corrupt_this_retry", 2, 3) {
            let mut m = bytes.to_vec();
            let bit = w.ch.choose("c14.retry_bit", (m.len() * 8) as u32) as usize;
            m[bit / 8] ^= 1 << (bit % 8);
            let server = w.dgrams[id as usize].src;
            // ahead of the genuine one, or behind it
            let ahead = w.ch.chance("c14.corrupt_ahead", 2, 3);
            let at = if ahead { w.now + w.net.base_delay / 2 } else { w.now + w.net.base_delay + MS };
            w.inject(at, server, dst, m, None, false, id, "corrupted-retry");
            w.faults.hit("corrupted_retry_injected");
            // (a flip inside the version field can turn the packet into a Version Negotiation
            // packet, which nothing authenticates: the client legitimately gives up)
            if (1..=4).contains(&(bit / 8)) {
                if let Some(&a) = self.by_inc.get(&origin) {
                    self.attempts[a].disturbed = true;
                }
            }
        }
    }

    /// a Retry with a *valid* integrity tag made by an on-path attacker for attempt `a`
    fn forge_retry(&mut self, w: &mut World, a: usize) {
        let Some(inc) = self.attempts[a].inc else { return };
        // (keyed by the destination CID the client uses right now: before any server packet that
        // is the original one, afterwards an attacker would try the server's source CID)
        let Some(odcid) = self.attempts[a].cur.as_ref().map(|c| c.0.clone()) else { return };
        if w.conns[inc as usize].conn.is_closed() {
            return;
        }
        // the client's source CID: read from its latest Initial
        let Some(scid_client) = w.dgrams.iter().rev().find(|d| d.origin_inc == inc && d.genuine).and_then(|d| first_initial(&d.bytes)).map(|x| x.1) else { return };
        let mut pkt = vec![0xf0 | w.ch.choose("c14.forge_low", 16) as u8];
        pkt.extend_from_slice(&1u32.to_be_bytes());
        pkt.push(scid_client.len() as u8);
        pkt.extend_from_slice(&scid_client);
        let new_scid: Vec<u8> = (0..8).map(|i| 0xA0 + i as u8 + w.ch.choose("c14.forge_scid", 4) as u8).collect();
        pkt.push(8);
        pkt.extend_from_slice(&new_scid);
        let tok: Vec<u8> = match self.ledger.last() {
            Some(r) if w.ch.chance("c14.forge_real_token", 1, 2) => r.bytes.clone(),
            _ => (0..20).map(|i| i as u8 ^ 0x33).collect(),
        };
        pkt.extend_from_slice(&tok);
        let tag = self.crypto.retry_tag(1, ConnectionId::new(&odcid), &pkt);
        pkt.extend_from_slice(&tag);
        let node = w.conns[inc as usize].node;
        let dst = w.nodes[node as usize].addr;
        let src = self.server_addrs[self.attempts[a].server];
        w.inject(w.now + MS, src, dst, pkt, None, false, u32::MAX, "forged-retry");
        w.faults.hit("forged_retry_injected");
        self.attempts[a].disturbed = true;
    }
}

impl Scenario for TokScen {
    fn on_incoming(&mut self, w: &mut World, node: u32, incoming: &Incoming, dgram: u32) -> IncomingAction {
        self.pending_accept = None;
        self.judge_incoming(w, node, incoming, dgram)
    }
    fn on_accepted(&mut self, w: &mut World, inc: u32, _dgram: u32) {
        if let Some((a, ok)) = self.pending_accept.take() {
            let n = *self.n_sessions.lock().unwrap();
            let broken = std::mem::take(&mut *self.tp_hit.lock().unwrap());
            let _ = n;
            self.attempts[a].accepts.push((inc, ok, broken));
            if broken {
                w.faults.hit("cid_echo_parameter_corrupted");
            }
        }
    }
    fn on_event(&mut self, w: &mut World, inc: u32, ev: Event) {
        let Some(&a) = self.by_inc.get(&inc) else { return };
        match ev {
            Event::Connected => {
                self.attempts[a].connected = true;
                w.probes.hit("attempt_connected");
                w.wake_in(self.linger, TAG_CLOSE + a as u64);
            }
            Event::ConnectionLost { reason } => {
                let code = match &reason {
                    ConnectionError::ConnectionClosed(c) => Some(u64::from(c.error_code)),
                    ConnectionError::TransportError(e) => Some(u64::from(e.code)),
                    _ => None,
                };
                self.attempts[a].lost = Some(format!("{}", reason));
                self.attempts[a].lost_code = code;
            }
            _ => {}
        }
    }
    fn on_wake(&mut self, w: &mut World, tag: u64) {
        if (TAG_ATTEMPT..TAG_ATTEMPT + (1 << 20)).contains(&tag) {
            self.start_attempt(w, (tag - TAG_ATTEMPT) as usize);
        } else if (TAG_CLOSE..TAG_CLOSE + (1 << 20)).contains(&tag) {
            let a = (tag - TAG_CLOSE) as usize;
            if let Some(inc) = self.attempts[a].inc {
                if !w.conns[inc as usize].conn.is_closed() {
                    let now = w.instant();
                    w.conn_mut(inc).close(now, VarInt::from_u32(0), Bytes::new());
                    w.conns[inc as usize].closed_locally_at = Some(w.now);
                }
            }
        } else if (TAG_JUMP..TAG_JUMP + (1 << 20)).contains(&tag) {
            let by = *w.ch.pick("c14.jump_by", &[SEC, 100 * MS, 3 * SEC, 6 * SEC, 20 * SEC, 120 * SEC, 3600 * SEC]);
            self.skew += by;
            w.faults.hit("server_clock_jump");
        } else if (TAG_FORGE..TAG_FORGE + (1 << 20)).contains(&tag) {
            self.forge_retry(w, (tag - TAG_FORGE) as usize);
        }
    }
    fn after_step(&mut self, w: &mut World) {
        self.scan(w);
        // the clock the servers will read during the next step
        self.clock_now = w.now + self.skew;
        self.clock.set(self.clock_now);
    }
    fn done(&self, w: &World) -> bool {
        w.now >= self.end_at
    }
}

#[derive(Clone)]
struct Opts {
    lossless: bool,
    n_attempts_max: u64,
    retry_integrity: bool,
    tp_corrupt: bool,
}

fn remove_or_alter_param(ch_kind: u32, which: u64, bytes: Vec<u8>, salt: u8) -> Vec<u8> {
    // walk the TLVs
    let mut out = Vec::new();
    let mut r = wire::Rd::new(&bytes);
    let mut found = false;
    while r.left() > 0 {
        let Ok(id) = r.var() else { return bytes };
        let Ok(len) = r.var() else { return bytes };
        let Ok(v) = r.take(len as usize) else { return bytes };
        if id == which {
            found = true;
            match ch_kind {
                0 => {
                    // alter one byte of the value (or give an empty CID a byte)
                    let mut v = v.to_vec();
                    if v.is_empty() {
                        v.push(salt);
                    } else {
                        let i = salt as usize % v.len();
                        v[i] ^= 1 << (salt % 8);
                    }
                    wire::put_var(&mut out, id);
                    wire::put_var(&mut out, v.len() as u64);
                    out.extend_from_slice(&v);
                }
                1 => {} // remove
                _ => {
                    // shorten by one byte
                    let v = &v[..v.len().saturating_sub(1)];
                    wire::put_var(&mut out, id);
                    wire::put_var(&mut out, v.len() as u64);
                    out.extend_from_slice(v);
                }
            }
        } else {
            wire::put_var(&mut out, id);
            wire::put_var(&mut out, len);
            out.extend_from_slice(v);
        }
    }
    if !found {
        // add it (retry_source_connection_id on a connection that saw no Retry)
        wire::put_var(&mut out, which);
        wire::put_var(&mut out, 8);
        out.extend_from_slice(&[salt; 8]);
    }
    out
}

fn run(ch: Chooser, ctx: &RunCtx, o: Opts) -> RunOut {
    let mut w = World::from_ctx(ch, ctx);
    let clock = SimTime::new();
    let retry_lifetime = *w.ch.pick("c14.retry_life", &[15 * SEC, 2 * SEC, 5 * SEC, SEC]);
    let validation_lifetime = *w.ch.pick("c14.val_life", &[14 * 86_400 * SEC, 3 * SEC, 10 * SEC, 60 * SEC]);
    let log_kind = w.ch.weighted("c14.log_kind", &[40, 35, 15, 10]) as u32;
    let use_retry = w.ch.chance("c14.use_retry", 1, 2);
    let sent = *w.ch.pick("c14.tokens_sent", &[2u32, 1, 4, 0]);
    w.net.base_delay = *w.ch.pick("c14.delay", &[5 * MS, MS, 20 * MS, 100 * MS]);
    if !o.lossless {
        w.net.faults = true;
        if w.ch.chance("c14.swarm.drop", 1, 2) {
            w.net.drop = *w.ch.pick("c14.rate.drop", &[50u32, 10, 150]);
        }
        if w.ch.chance("c14.swarm.dup", 2, 3) {
            w.net.dup = *w.ch.pick("c14.rate.dup", &[100u32, 20, 300]);
        }
        if w.ch.chance("c14.swarm.reorder", 1, 2) {
            w.net.reorder = *w.ch.pick("c14.rate.reorder", &[100u32, 30, 300]);
            w.net.jitter = *w.ch.pick("c14.rate.jitter", &[10 * MS, MS, 100 * MS, 1500 * MS]);
        }
        if w.ch.chance("c14.swarm.corrupt", 1, 3) {
            w.net.corrupt = *w.ch.pick("c14.rate.corrupt", &[30u32, 5, 100]);
        }
    }
    let mut k = TKnobs::default();
    k.idle_ms = Some(4000);
    let transport = Arc::new(k.build());
    // (a long certificate chain leaves a client waiting for the rest of the server's flight
    // after it has processed the server's Initial: the window a late Retry must fall into)
    let big_cert = o.retry_integrity && w.ch.chance("c14.big_cert", 1, 2);
    let tls = cfgs::rustls_server(big_cert, true);
    let n_sessions = Arc::new(Mutex::new(0u32));
    let tp_hit = Arc::new(Mutex::new(false));
    let tp_target = if o.tp_corrupt { Some((w.ch.choose("c14.tp_session", 4), w.ch.choose("c14.tp_kind", 9))) } else { None };
    let mut servers = Vec::new();
    let mut server_addrs = Vec::new();
    for si in 0..2u32 {
        let crypto = cfgs::tapped_server_crypto(&w.tap, si, tls.clone());
        let mut scfg = cfgs::server_config(crypto, 0x70 + si as u64 * 0x1111, transport.clone(), clock.clone());
        scfg.retry_token_lifetime(Duration::from_nanos(retry_lifetime));
        let mut v = ValidationTokenConfig::default();
        v.lifetime(Duration::from_nanos(validation_lifetime));
        v.sent(sent);
        let log: Arc<dyn TokenLog> = match log_kind {
            0 => Arc::new(ExactLog::default()),
            1 => Arc::new(BloomTokenLog::default()),
            2 => Arc::new(BloomTokenLog::new(*w.ch.pick("c14.bloom_bytes", &[64usize, 0, 16, 256]), 1 + w.ch.choose("c14.bloom_k", 4))),
            _ => Arc::new(NoneTokenLog),
        };
        v.log(log);
        scfg.validation_token_config(v);
        scfg.migration(false);
        let sep = EpOpts { seed: 0x5E47 + si as u64, cid_len: 8, reset_key_seed: 7 + si as u64, ..Default::default() };
        let ep = Endpoint::new(Arc::new(cfgs::endpoint_config(&sep)), Some(Arc::new(scfg)), true);
        let addr = cfgs::addr(si, 0);
        let n = w.add_node(ep, addr, 8, 1);
        w.reset_key_seeds.insert(n, sep.reset_key_seed);
        servers.push(n);
        server_addrs.push(addr);
    }
    if let Some((sess, kind)) = tp_target {
        let (ns, hit) = (n_sessions.clone(), tp_hit.clone());
        let salt = w.ch.choose("c14.tp_salt", 256) as u8;
        w.tap.lock().unwrap().params_patch.insert(servers[0], Arc::new(move |bytes: Vec<u8>| {
            let mut n = ns.lock().unwrap();
            let me = *n;
            *n += 1;
            if me != sess {
                return bytes;
            }
            *hit.lock().unwrap() = true;
            // 0x00 original_destination_connection_id, 0x0f initial_source_connection_id,
            // 0x10 retry_source_connection_id
            let (which, how) = match kind {
                0 => (0x00, 0),
                1 => (0x00, 1),
                2 => (0x00, 2),
                3 => (0x0f, 0),
                4 => (0x0f, 1),
                5 => (0x0f, 2),
                6 => (0x10, 0),
                7 => (0x10, 1),
                _ => (0x10, 2),
            };
            remove_or_alter_param(how, which, bytes, salt)
        }));
    }
    // clients: 0 and 1 share an IP address, 2 and 3 have their own
    let inner: Arc<dyn TokenStore> = Arc::new(TokenMemoryCache::new(*w.ch.pick("c14.cache_names", &[256u32, 1, 0, 2]), *w.ch.pick("c14.cache_tokens", &[2usize, 1, 0, 8])));
    let store = Arc::new(ScriptStore { inner, script: Mutex::new(None), log: Mutex::new(StoreLog::default()) });
    let mut clients = Vec::new();
    let mut client_cfgs = Vec::new();
    for ci in 0..4u32 {
        let addr = match ci {
            0 => cfgs::addr(10, 0),
            1 => cfgs::addr(10, 77),
            2 => cfgs::addr(11, 0),
            _ => cfgs::addr(12, 0),
        };
        let cep = EpOpts { seed: 0xC11E ^ ((ci as u64) << 20), cid_len: 8, reset_key_seed: 100 + ci as u64, ..Default::default() };
        let ep = Endpoint::new(Arc::new(cfgs::endpoint_config(&cep)), None, true);
        let n = w.add_node(ep, addr, 8, 1);
        w.reset_key_seeds.insert(n, cep.reset_key_seed);
        clients.push(n);
        let crypto = cfgs::tapped_client_crypto(&w.tap, n, cfgs::rustls_client(true));
        let mut cfg = cfgs::client_config(crypto, transport.clone(), 0xDC1D ^ ci as u64);
        cfg.token_store(store.clone());
        client_cfgs.push(cfg);
    }
    // the history
    let n_attempts = w.ch.range("c14.n_attempts", 2, o.n_attempts_max);
    let mut t = 0;
    let mut attempts = Vec::new();
    for i in 0..n_attempts {
        if i > 0 {
            t += *w.ch.pick("c14.gap", &[700 * MS, 50 * MS, 1100 * MS, 2500 * MS, 6 * SEC, 20 * SEC]) + w.ch.range("c14.gap_us", 0, 999) * 1000;
        }
        let client = w.ch.weighted("c14.client", &[50, 20, 20, 10]);
        let server = if w.ch.chance("c14.other_server", 1, 6) { 1 } else { 0 };
        let tok_mode = w.ch.weighted("c14.tok_mode", &[35, 10, 30, 25]) as u32;
        attempts.push(Attempt { at: t, client, server, tok_mode, inc: None, presented: Vec::new(), connected: false, lost: None, lost_code: None, first_dcid: None, cur: None, followed: None, expect_invalid: false, accepts: Vec::new(), disturbed: false });
        w.wake_at(t, TAG_ATTEMPT + i);
    }
    let n_jumps = w.ch.range("c14.n_jumps", 0, 3);
    for j in 0..n_jumps {
        let at = w.ch.range("c14.jump_at_ms", 0, t / MS + 1000) * MS;
        w.wake_at(at, TAG_JUMP + j);
    }
    let disturb_retry = if o.lossless && use_retry { w.ch.choose("c14.disturb_retry", 4) } else { 0 };
    let corrupt_retry = o.retry_integrity && w.ch.chance("c14.corrupt_retry", 2, 3);
    let mut forge = Vec::new();
    if o.retry_integrity {
        for (i, a) in attempts.iter().enumerate() {
            if w.ch.chance("c14.forge", 1, 3) {
                // around the time the first server packets arrive
                let d = w.ch.range("c14.forge_after_us", 0, 6 * w.net.base_delay / 1000 + 2000) * 1000;
                forge.push((a.at + d, i as u32));
                w.wake_at(a.at + d, TAG_FORGE + i as u64);
            }
        }
    }
    let linger = 3 * w.net.base_delay + 60 * MS;
    let end_at = t + 12 * SEC;
    w.wake_at(end_at, TAG_END);
    let mut sc = TokScen {
        servers,
        server_addrs,
        clients,
        client_cfgs,
        store,
        clock,
        skew: 0,
        clock_now: 0,
        retry_lifetime,
        validation_lifetime,
        log_kind,
        use_retry,
        lossless: o.lossless,
        attempts,
        by_inc: BTreeMap::new(),
        ledger: Vec::new(),
        ledger_idx: BTreeMap::new(),
        dg_seen: 0,
        pk_seen: 0,
        hd_seen: 0,
        retries: BTreeMap::new(),
        disturb_retry,
        corrupt_retry,
        forge,
        crypto: cfgs::untapped_server_crypto(tls),
        end_at,
        linger,
        n_sessions,
        tp_target,
        tp_hit,
        pending_accept: None,
    };
    w.run(&mut sc);
    if w.violations.is_empty() && w.hit_limit.is_none() {
        end_checks(&mut w, &sc);
    }
    let mut out = RunOut::from_world(&mut w);
    out.nontrivial = true;
    out.config = format!("retry_lifetime={}s validation_lifetime={}s log_kind={} use_retry={} tokens_sent={} lossless={} disturb_retry={} corrupt_retry={} forge={:?} tp_target={:?} net={:?} attempts={:?}", retry_lifetime / SEC, validation_lifetime / SEC, log_kind, use_retry, sent, o.lossless, disturb_retry, corrupt_retry, sc.forge, sc.tp_target, w.net, sc.attempts.iter().map(|a| (a.at / MS, a.client, a.server, a.tok_mode, a.connected, a.lost.clone())).collect::<Vec<_>>());
    out
}

fn end_checks(w: &mut World, sc: &TokScen) {
    // the token store hands out each stored token at most once, and only what was stored
    {
        let log = sc.store.log.lock().unwrap();
        let mut seen = BTreeSet::new();
        for (name, t) in &log.taken {
            if !log.inserted.iter().any(|(n, x)| n == name && x == t) {
                w.violate("token-store-invented-token", format!("take({:?}) returned a token of {} bytes that was never stored under that name", name, t.len()));
                return;
            }
            if !seen.insert(t.clone()) {
                w.violate("token-store-handed-out-token-twice", format!("take({:?}) returned the token {}.. a second time", name, hex(&t[..t.len().min(16)])));
                return;
            }
        }
        if !log.taken.is_empty() {
            w.probes.hit("token_store_take_returned_token");
        }
    }
    for (i, a) in sc.attempts.iter().enumerate() {
        let Some(inc) = a.inc else { continue };
        // a completed handshake needs the CIDs echoed truthfully, under any schedule
        let good = a.accepts.iter().any(|(_, ok, broken)| *ok && !*broken);
        if a.connected && !a.accepts.is_empty() && !good {
            let broken = a.accepts.iter().any(|x| x.2);
            w.violate("handshake-completed-despite-cid-mismatch", format!("attempt {} (inc{}) completed its handshake although the connection IDs the server echoes in its transport parameters {} (first dcid {:?}, followed retry {:?}, server connections {:?})", i, inc, if broken { "were corrupted in transit" } else { "cannot match the ones the client used" }, a.first_dcid.as_ref().map(|x| hex(x)), a.followed.as_ref().map(|x| hex(&x.0)), a.accepts));
            return;
        }
        if !sc.lossless || a.disturbed {
            continue;
        }
        if a.expect_invalid {
            if a.connected {
                w.violate("connected-with-refused-retry-token", format!("attempt {} (inc{}) connected although its Retry token had to be refused", i, inc));
                return;
            }
            if a.lost_code != Some(0x0b) {
                w.violate("bad-retry-token-not-answered-with-invalid-token", format!("attempt {} (inc{}): the server refused a stale / misplaced Retry token, the client saw {:?} instead of INVALID_TOKEN", i, inc, a.lost));
                return;
            }
            w.probes.hit("attempt_ended_with_invalid_token");
            continue;
        }
        if good {
            if !a.connected {
                w.violate("honest-attempt-failed", format!("attempt {} (inc{}) on a loss-free network: the server accepted it and echoed the right connection IDs, yet the client did not connect ({:?})", i, inc, a.lost));
                return;
            }
        } else if !a.accepts.is_empty() {
            w.probes.hit("attempt_failed_on_cid_mismatch");
        }
    }
}

fn fam_histories(ch: Chooser, ctx: &RunCtx) -> RunOut {
    run(ch, ctx, Opts { lossless: true, n_attempts_max: 10, retry_integrity: false, tp_corrupt: false })
}
fn fam_histories_faults(ch: Chooser, ctx: &RunCtx) -> RunOut {
    run(ch, ctx, Opts { lossless: false, n_attempts_max: 10, retry_integrity: false, tp_corrupt: false })
}
fn fam_retry_integrity(ch: Chooser, ctx: &RunCtx) -> RunOut {
    run(ch, ctx, Opts { lossless: true, n_attempts_max: 5, retry_integrity: true, tp_corrupt: false })
}
fn fam_cid_echo(ch: Chooser, ctx: &RunCtx) -> RunOut {
    run(ch, ctx, Opts { lossless: true, n_attempts_max: 5, retry_integrity: false, tp_corrupt: true })
}

// ------------------------------------------------------------------------------------------
// direct histories against the token log and the token cache
// ------------------------------------------------------------------------------------------

fn model_out(ch: &mut Chooser, violations: Vec<(String, String)>, probes: crate::world::FaultCounts, steps: u64, sig: u64, config: String) -> RunOut {
    let violations = violations.into_iter().map(|(kind, detail)| crate::world::Violation { kind, detail, t: 0, step: steps }).collect();
    RunOut { violations, faults: Default::default(), probes, sig, nontrivial: true, steps, sim_ns: 0, hit_limit: None, panic: None, choices: ch.values(), log: Vec::new(), trace: Vec::new(), stats: BTreeMap::new(), config }
}

fn fam_token_log(mut ch: Chooser, _ctx: &RunCtx) -> RunOut {
    let max_bytes = *ch.pick("c14.log.bytes", &[20usize << 20, 0, 16, 64, 1024, 10_000]);
    let k = 1 + ch.choose("c14.log.k", 6);
    let log = if ch.chance("c14.log.expected_items", 1, 3) { BloomTokenLog::new_expected_items(max_bytes, *ch.pick("c14.log.hits", &[1_000_000u64, 1, 10, 1000])) } else { BloomTokenLog::new(max_bytes, k) };
    let lifetime = *ch.pick("c14.log.life_s", &[10u64, 1, 3, 1_209_600]);
    let base = std::time::UNIX_EPOCH + Duration::from_secs(1_900_000_000);
    let mut now: u64 = 0;
    let n = ch.range("c14.log.n", 1, 60);
    let mut accepted: BTreeMap<u128, u64> = BTreeMap::new();
    let mut pool: Vec<(u128, u64)> = Vec::new();
    let mut violations = Vec::new();
    let mut probes = crate::world::FaultCounts::default();
    let mut max_issued = 0u64;
    let mut sig = 0u64;
    for step in 0..n {
        now += *ch.pick("c14.log.dt", &[1u64, 0, 2, lifetime / 2 + 1, lifetime, 2 * lifetime + 1, 5 * lifetime]);
        // a token to present: a new one (issued at some earlier moment) or one seen before
        let (nonce, issued) = if !pool.is_empty() && ch.chance("c14.log.again", 1, 2) {
            pool[ch.choose("c14.log.which", pool.len() as u32) as usize]
        } else {
            let back = *ch.pick("c14.log.back", &[0u64, 1, lifetime / 2, lifetime, lifetime + 1]);
            let issued = now.saturating_sub(back);
            // (distinct low 64 bits, so that truncation cannot make two tokens look alike; some
            // share them on purpose)
            let low = if ch.chance("c14.log.collide", 1, 10) && !pool.is_empty() { pool[0].0 as u64 } else { 0x1000 + step * 7919 };
            let nonce = ((step as u128 + 1) << 64) | low as u128;
            pool.push((nonce, issued));
            (nonce, issued)
        };
        // quinn consults the log only for tokens within their lifetime
        if issued + lifetime < now {
            probes.hit("log_expired_token_not_presented");
            continue;
        }
        let r = log.check_and_insert(nonce, base + Duration::from_secs(issued), Duration::from_secs(lifetime));
        sig = crate::chooser::mix(&[sig, r.is_ok() as u64, (now / lifetime.max(1)) % 5]);
        match r {
            Ok(()) => {
                if let Some(at) = accepted.get(&nonce) {
                    violations.push(("token-log-accepted-token-twice".to_string(), format!("BloomTokenLog(max_bytes={}, k={}) lifetime {}s: the token with nonce {:x} issued at {}s was accepted at {}s and again at {}s (step {})", max_bytes, k, lifetime, nonce, issued, at, now, step)));
                    break;
                }
                accepted.insert(nonce, now);
                probes.hit("log_token_accepted");
            }
            Err(_) => {
                if accepted.contains_key(&nonce) {
                    probes.hit("log_reuse_refused");
                } else {
                    probes.hit("log_fresh_token_refused");
                    // with room to spare, a fresh token that is not older than anything seen so
                    // far has no reason to be refused
                    let fresh_low = !accepted.keys().any(|k| *k as u64 == nonce as u64);
                    if max_bytes >= (20 << 20) && issued >= max_issued && fresh_low {
                        violations.push(("token-log-refused-fresh-token".to_string(), format!("BloomTokenLog(max_bytes={}) lifetime {}s: the never-seen token issued at {}s (no older than any seen before) was refused at {}s (step {})", max_bytes, lifetime, issued, now, step)));
                        break;
                    }
                }
            }
        }
        max_issued = max_issued.max(issued);
    }
    let cfg = format!("max_bytes={} k={} lifetime={}s steps={}", max_bytes, k, lifetime, n);
    model_out(&mut ch, violations, probes, n, sig, cfg)
}

fn fam_token_cache(mut ch: Chooser, _ctx: &RunCtx) -> RunOut {
    let names = *ch.pick("c14.cache.names", &[2u32, 0, 1, 3, 256]);
    let per = *ch.pick("c14.cache.per", &[2usize, 0, 1, 3]);
    let cache = TokenMemoryCache::new(names, per);
    let n = ch.range("c14.cache.n", 1, 80);
    let mut stored: BTreeMap<u32, Vec<u64>> = BTreeMap::new();
    let mut handed: BTreeSet<u64> = BTreeSet::new();
    let mut violations = Vec::new();
    let mut probes = crate::world::FaultCounts::default();
    let mut next = 1u64;
    let mut sig = 0u64;
    let mut last_insert: Option<u32> = None;
    for step in 0..n {
        let name = ch.choose("c14.cache.name", 5);
        let sname = format!("server{}", name);
        if ch.chance("c14.cache.insert", 1, 2) {
            let id = next;
            next += 1;
            cache.insert(&sname, Bytes::from(id.to_le_bytes().to_vec()));
            stored.entry(name).or_default().push(id);
            last_insert = Some(name);
            sig = crate::chooser::mix(&[sig, 1, name as u64]);
        } else {
            let r = cache.take(&sname);
            sig = crate::chooser::mix(&[sig, 2, name as u64, r.is_some() as u64]);
            match r {
                Some(b) => {
                    let id = u64::from_le_bytes(b[..8].try_into().unwrap());
                    if !stored.get(&name).is_some_and(|v| v.contains(&id)) {
                        violations.push(("token-store-invented-token".to_string(), format!("TokenMemoryCache({}, {}): take({}) returned token {} which was never stored under that name (step {})", names, per, sname, id, step)));
                        break;
                    }
                    if !handed.insert(id) {
                        violations.push(("token-store-handed-out-token-twice".to_string(), format!("TokenMemoryCache({}, {}): take({}) returned token {} a second time (step {})", names, per, sname, id, step)));
                        break;
                    }
                    probes.hit("cache_take_some");
                }
                None => {
                    probes.hit("cache_take_none");
                    if names > 0 && per > 0 && last_insert == Some(name) {
                        violations.push(("token-store-lost-fresh-token".to_string(), format!("TokenMemoryCache({}, {}): take({}) right after insert({}) returned nothing (step {})", names, per, sname, sname, step)));
                        break;
                    }
                }
            }
            last_insert = None;
        }
    }
    let cfg = format!("max_server_names={} max_tokens_per_server={} steps={}", names, per, n);
    model_out(&mut ch, violations, probes, n, sig, cfg)
}

pub fn spec() -> PropSpec {
    PropSpec {
        id: "C14",
        families: vec![
            Family { name: "token-histories", f: fam_histories, weight: 35 },
            Family { name: "token-histories-faults", f: fam_histories_faults, weight: 15 },
            Family { name: "retry-integrity", f: fam_retry_integrity, weight: 20 },
            Family { name: "cid-echo", f: fam_cid_echo, weight: 10 },
            Family { name: "token-log-histories", f: fam_token_log, weight: 10 },
            Family { name: "token-cache-histories", f: fam_token_cache, weight: 10 },
        ],
        quick_worlds: 160_000,
        thorough_worlds: 3_000_000,
        panic_is_violation: true,
        rule: "each world = two server endpoints (different token keys; Retry policy, retry / validation token lifetimes, tokens per connection and token log implementation drawn: exact reference set, default BloomTokenLog, BloomTokenLog of 0..256 bytes, NoneTokenLog) and four client endpoints (two sharing an IP address) sharing one TokenMemoryCache of drawn capacity, running a drawn history of 2..10 connection attempts spaced 50 ms..20 s apart; each attempt presents the store's token, none, a verbatim copy of any token seen on the wire so far, or a bit-flipped / truncated / extended / spliced / random one, from a drawn address and against either server; the servers' clock jumps forward at drawn instants; after a Retry the client may be rebound (port or address) or the clock may jump past the token lifetime; retry-integrity worlds inject single-bit corruptions of genuine Retry packets and forged Retry packets carrying a valid integrity tag at drawn instants; cid-echo worlds corrupt one of the three CID-echo transport parameters of one server session (alter, remove, shorten, add); two model families drive BloomTokenLog and TokenMemoryCache directly through drawn histories; distinct = distinct abstract-event signature",
        assumptions: vec![
            "the ledger of genuine tokens is read off the wire (Retry packets) and from the tap's plaintext (NEW_TOKEN frames) together with the server clock value held during the issuing step; a token is 'altered or foreign' iff its bytes are not in that ledger for the server it is presented to",
            "issue times are stored in whole seconds: acceptance is required only up to one second before the lifetime ends and forbidden after it",
            "a BloomTokenLog small enough to turn into a bloom filter may refuse a never-used token (false positive); it must never accept a token twice",
            "client outcomes (connected / INVALID_TOKEN) are judged on loss-free worlds only; soundness of validation is judged in all",
        ],
        real: super::REAL.to_vec(),
        stub: super::STUB.to_vec(),
    }
}
