//! C13 — datagrams never exceed the validated path MTU or peer limits.
//!
//! Oracle over the transmit log (sizes of every datagram a connection emitted, its MTU estimate
//! just before the call) joined with the tap's plaintext ledger (which packets / frames each
//! datagram carried, which ACKs the connection accepted):
//!   * a datagram larger than the estimate must be a lone MTU probe (PING+PADDING in 1-RTT), no
//!     larger than the configured upper bound and the peer's max_udp_payload_size, and the only
//!     probe outstanding;
//!   * client Initial datagrams and datagrams carrying PATH_CHALLENGE / PATH_RESPONSE are at
//!     least 1200 bytes; datagrams built for a loss probe are at most 1200 bytes;
//!   * the estimate rises only to the size of a probe whose acknowledgement was accepted, and
//!     never falls below min(min_mtu, peer's max_udp_payload_size);
//!   * when the link starts dropping large datagrams the workload still completes (wedge oracle).

use std::collections::BTreeMap;

use quinn_proto::Side;

use crate::app::Workload;
use crate::cfgs::TKnobs;
use crate::chooser::Chooser;
use crate::runner::{Family, PropSpec, RunCtx, RunOut};
use crate::scen::{Basic, BasicOpts, Oracle};
use crate::tap::NO_INC;
use crate::wire::{self, Frame, LongType, PublicHeader, Space};
use crate::world::World;

#[derive(Default)]
struct St {
    mtu: u16,
    outstanding: Option<(u64, usize)>,
    /// packet number -> datagram size of every MTU probe sent
    probes: BTreeMap<u64, usize>,
    acked_sizes: std::collections::BTreeSet<usize>,
    lost_stat: u64,
    black_hole_stat: u64,
    remote: Option<std::net::SocketAddr>,
}

pub struct MtuOracle {
    pub server: TKnobs,
    pub client: TKnobs,
    pub udp_payload_s: u16,
    pub udp_payload_c: Vec<u16>,
    tx_seen: usize,
    pk_seen: usize,
    st: BTreeMap<u32, St>,
    pub dgrams_checked: u64,
    pub probes_seen: u64,
    pub raises_seen: u64,
    pub loss_probe_dgrams: u64,
    pub path_frames_checked: u64,
}

impl MtuOracle {
    pub fn new(sc: &Basic) -> Self {
        Self {
            server: sc.server_knobs.clone(),
            client: sc.client_knobs.clone(),
            udp_payload_s: sc.udp_payload_s,
            udp_payload_c: sc.udp_payload_c.clone(),
            tx_seen: 0,
            pk_seen: 0,
            st: BTreeMap::new(),
            dgrams_checked: 0,
            probes_seen: 0,
            raises_seen: 0,
            loss_probe_dgrams: 0,
            path_frames_checked: 0,
        }
    }
    fn knobs(&self, side: Side) -> &TKnobs {
        if side == Side::Client {
            &self.client
        } else {
            &self.server
        }
    }
    /// the max_udp_payload_size the *peer* of a connection advertises
    fn peer_udp(&self, w: &World, inc: u32) -> u16 {
        let c = &w.conns[inc as usize];
        if c.side == Side::Client {
            self.udp_payload_s
        } else if c.peer != NO_INC {
            let n = w.conns[c.peer as usize].node as usize;
            self.udp_payload_c.get(n.saturating_sub(1)).copied().unwrap_or(1472)
        } else {
            // pairing unknown: any client endpoint's value
            self.udp_payload_c.iter().copied().max().unwrap_or(1472)
        }
    }
}

fn is_mtu_probe(frames: &[Frame]) -> bool {
    !frames.is_empty() && frames.iter().all(|f| matches!(f, Frame::Ping | Frame::ImmediateAck | Frame::Padding(_))) && frames.iter().any(|f| matches!(f, Frame::Ping))
}

impl Oracle for MtuOracle {
    fn after_step(&mut self, w: &mut World, wl: &Workload) {
        let tap = w.tap.clone();
        let t = tap.lock().unwrap();
        let mut problem: Option<(String, String)> = None;
        let mut hits: Vec<&'static str> = Vec::new();
        // (a) acknowledgements accepted
        for p in &t.pkts[self.pk_seen..] {
            if p.enc || !p.ok || p.space != Space::OneRtt || p.inc == NO_INC {
                continue;
            }
            let st = self.st.entry(p.inc).or_default();
            if st.probes.is_empty() {
                continue;
            }
            for f in wire::frames(&p.payload).0 {
                if let Frame::Ack { ranges, .. } = f {
                    for (pn, size) in st.probes.iter() {
                        if ranges.iter().any(|(lo, hi)| lo <= pn && pn <= hi) {
                            st.acked_sizes.insert(*size);
                            if st.outstanding.is_some_and(|(o, _)| o == *pn) {
                                st.outstanding = None;
                            }
                        }
                    }
                }
            }
        }
        self.pk_seen = t.pkts.len();
        // (b) datagrams emitted
        'tx: for tx in &w.txlog[self.tx_seen..] {
            if tx.inc == NO_INC || tx.pk_from == usize::MAX {
                continue;
            }
            let inc = tx.inc;
            let side = w.conns[inc as usize].side;
            let k = self.knobs(side).clone();
            let peer_udp = self.peer_udp(w, inc);
            let connected = wl.sides.get(&inc).is_some_and(|s| s.connected);
            // lost-probe statistic may have cleared the outstanding probe
            {
                let lost = w.conns[inc as usize].conn.stats().path.lost_plpmtud_probes;
                let st = self.st.entry(inc).or_default();
                if lost > st.lost_stat {
                    st.lost_stat = lost;
                    st.outstanding = None;
                }
                // a detected black hole abandons the search together with its probe in flight
                let bh = w.conns[inc as usize].conn.stats().path.black_holes_detected;
                if bh > st.black_hole_stat {
                    st.black_hole_stat = bh;
                    st.outstanding = None;
                }
                let remote = w.conns[inc as usize].conn.remote_address();
                if st.remote.is_some_and(|r| r != remote) {
                    // a new path starts over from the configured initial MTU
                    st.outstanding = None;
                    st.mtu = 0;
                }
                st.remote = Some(remote);
            }
            let mut pk = t.pkts[tx.pk_from..tx.pk_to.min(t.pkts.len())].iter().filter(|p| p.enc && p.inc == inc);
            let mut ids = Vec::new();
            let mut i = tx.first_dgram as usize;
            while ids.len() < tx.n_dgrams as usize && i < w.dgrams.len() {
                let d = &w.dgrams[i];
                if d.origin_inc == inc && d.genuine && (d.parent == d.id || d.parent == u32::MAX) {
                    ids.push(i);
                }
                i += 1;
            }
            let consumed: u32 = match (&tx.before, &tx.after) {
                (Some(b), Some(a)) => b.loss_probes.iter().sum::<u32>().saturating_sub(a.loss_probes.iter().sum::<u32>()),
                _ => 0,
            };
            let mut over_1200 = 0u32;
            for &di in &ids {
                let d = &w.dgrams[di];
                let size = d.bytes.len();
                self.dgrams_checked += 1;
                if size > 1200 {
                    over_1200 += 1;
                }
                // which packets does it carry?
                let hdrs = wire::walk_datagram(&d.bytes, 0);
                let mut frames_of: Vec<(Space, u64, Vec<Frame>)> = Vec::new();
                let mut has_initial = false;
                for (_, h) in &hdrs {
                    if let PublicHeader::Long { ty: LongType::Initial, .. } = h {
                        has_initial = true;
                    }
                    if let Some(p) = pk.next() {
                        frames_of.push((p.space, p.pn, wire::frames(&p.payload).0));
                    }
                }
                let carries_path = frames_of.iter().any(|(_, _, fr)| fr.iter().any(|f| matches!(f, Frame::PathChallenge(_) | Frame::PathResponse(_))));
                if has_initial && side == Side::Client && size < 1200 {
                    problem = Some(("client-initial-datagram-too-small".into(), format!("inc{} sent a {}-byte datagram carrying an Initial packet", inc, size)));
                    break 'tx;
                }
                if carries_path {
                    self.path_frames_checked += 1;
                    hits.push("path_validation_datagram");
                    if size < 1200 {
                        problem = Some(("path-validation-datagram-too-small".into(), format!("inc{} sent a {}-byte datagram carrying {}", inc, size, frames_of.iter().flat_map(|(_, _, fr)| fr.iter()).filter(|f| matches!(f, Frame::PathChallenge(_) | Frame::PathResponse(_))).map(|f| f.short_name()).collect::<Vec<_>>().join("+"))));
                        break 'tx;
                    }
                }
                if connected && size > peer_udp as usize {
                    problem = Some(("datagram-exceeds-peer-max-udp-payload".into(), format!("inc{} sent a {}-byte datagram although the peer advertised max_udp_payload_size {}", inc, size, peer_udp)));
                    break 'tx;
                }
                if size > tx.mtu_before as usize {
                    let lone_probe = frames_of.len() == 1 && frames_of[0].0 == Space::OneRtt && is_mtu_probe(&frames_of[0].2);
                    if !lone_probe {
                        problem = Some(("datagram-exceeds-path-mtu".into(), format!("inc{} sent a {}-byte datagram while its path MTU estimate was {} and it is not a lone MTU probe ({} packets)", inc, size, tx.mtu_before, frames_of.len())));
                        break 'tx;
                    }
                    self.probes_seen += 1;
                    hits.push("mtu_probe_sent");
                    let bound = (k.mtud_upper.max(1200) as usize).min(peer_udp as usize);
                    if !k.mtud || size > bound {
                        problem = Some(("mtu-probe-exceeds-bound".into(), format!("inc{} sent an MTU probe of {} bytes; discovery enabled={} configured upper bound {} peer max_udp_payload_size {}", inc, size, k.mtud, k.mtud_upper, peer_udp)));
                        break 'tx;
                    }
                    let st = self.st.entry(inc).or_default();
                    if let Some((opn, osz)) = st.outstanding {
                        problem = Some(("second-mtu-probe-outstanding".into(), format!("inc{} sent an MTU probe (pn {}, {} bytes) while probe pn {} ({} bytes) is neither acknowledged nor declared lost", inc, frames_of[0].1, size, opn, osz)));
                        break 'tx;
                    }
                    st.outstanding = Some((frames_of[0].1, size));
                    st.probes.insert(frames_of[0].1, size);
                }
            }
            if consumed > 0 {
                self.loss_probe_dgrams += consumed as u64;
                hits.push("loss_probe_datagram");
                let allowed = (ids.len() as u32).saturating_sub(consumed);
                if over_1200 > allowed {
                    problem = Some(("loss-probe-datagram-exceeds-1200".into(), format!("inc{}: a poll_transmit that used {} loss probes emitted {} datagrams of which {} exceed 1200 bytes (sizes {:?})", inc, consumed, ids.len(), over_1200, ids.iter().map(|i| w.dgrams[*i].bytes.len()).collect::<Vec<_>>())));
                    break 'tx;
                }
            }
        }
        self.tx_seen = w.txlog.len();
        drop(t);
        for h in hits {
            w.probes.hit(h);
        }
        if let Some((k, d)) = problem {
            w.violate(k, d);
            return;
        }
        // (c) the estimate itself
        let mut raised = false;
        let mut lowered = false;
        for c in &w.conns {
            if c.drained_handled {
                continue;
            }
            let cur = c.conn.current_mtu();
            let remote = c.conn.remote_address();
            let k = self.knobs(c.side).clone();
            let peer_udp = self.peer_udp(w, c.inc);
            let connected = wl.sides.get(&c.inc).is_some_and(|s| s.connected);
            let st = self.st.entry(c.inc).or_default();
            let path_changed = st.remote.is_some_and(|r| r != remote);
            if st.mtu == 0 || path_changed {
                st.mtu = cur;
                st.remote = Some(remote);
                if path_changed {
                    st.outstanding = None;
                }
                continue;
            }
            if cur > st.mtu {
                self.raises_seen += 1;
                raised = true;
                if !st.acked_sizes.contains(&(cur as usize)) {
                    problem = Some(("mtu-raised-without-acknowledged-probe".into(), format!("inc{} raised its path MTU estimate from {} to {} but no probe of that size was acknowledged (acknowledged probe sizes: {:?})", c.inc, st.mtu, cur, st.acked_sizes)));
                    break;
                }
            }
            let floor = if connected { k.min_mtu.min(peer_udp) } else { k.min_mtu.min(1200) };
            if cur < floor {
                problem = Some(("mtu-below-floor".into(), format!("inc{} path MTU estimate {} is below min(min_mtu {}, peer max_udp_payload_size {})", c.inc, cur, k.min_mtu, peer_udp)));
                break;
            }
            if cur < st.mtu {
                lowered = true;
            }
            st.mtu = cur;
        }
        if raised {
            w.probes.hit("mtu_estimate_raised");
        }
        if lowered {
            w.probes.hit("mtu_estimate_lowered");
        }
        if let Some((k, d)) = problem {
            w.violate(k, d);
        }
    }
}

fn run(ch: Chooser, ctx: &RunCtx, opts: BasicOpts, tune: bool) -> RunOut {
    run2(ch, ctx, opts, tune, false)
}

fn run2(ch: Chooser, ctx: &RunCtx, mut opts: BasicOpts, tune: bool, fine: bool) -> RunOut {
    let mut w = World::from_ctx(ch, ctx);
    w.drv.track_probe = true;
    opts.allow_corrupt = false;
    opts.idle_off = true;
    if tune {
        let mut sk = TKnobs::draw(&mut w.ch);
        let mut ck = TKnobs::draw(&mut w.ch);
        for k in [&mut sk, &mut ck] {
            k.min_mtu = *w.ch.pick("c13.min_mtu", &[1200u16, 1200, 1250, 1300]);
            k.initial_mtu = *w.ch.pick("c13.initial_mtu", &[1200u16, 1200, 1280, 1400, 1452, 1500, 3000]);
            k.mtud = !w.ch.chance("c13.mtud_off", 1, 5);
            k.mtud_upper = *w.ch.pick("c13.mtud_upper", &[1452u16, 1200, 1300, 1500, 4000, 9000, 65_527]);
            // windows large enough for the transfer to be able to exercise discovery
            k.stream_window = k.stream_window.max(16_384);
            k.conn_window = k.conn_window.max(16_384);
            k.send_window = k.send_window.max(20_000);
            if fine {
                // a search that goes down to the byte, restarted often
                k.mtud = true;
                k.mtud_upper = *w.ch.pick("c13.fine.upper", &[1452u16, 1203, 1210, 1300, 4000]);
                k.mtud_params = Some((*w.ch.pick("c13.fine.interval_ms", &[1000u64, 50, 10_000, 600_000]), *w.ch.pick("c13.fine.cooldown_ms", &[2000u64, 100, 60_000]), *w.ch.pick("c13.fine.min_change", &[1u16, 1, 2, 5])));
            }
            k.sane();
        }
        opts.fixed_knobs = Some((sk, ck));
    }
    let mut sc = Basic::build(&mut w, opts);
    // min_mtu is a promise the user makes about the network: keep the link honest
    let floor = sc.server_knobs.min_mtu.max(sc.client_knobs.min_mtu) as usize;
    w.net.mtu = w.net.mtu.max(floor);
    for (_, op) in sc.ops.iter_mut() {
        if let crate::scen::TimedOp::SetLinkMtu(m) = op {
            *m = (*m).max(floor);
        }
    }
    let or = MtuOracle::new(&sc);
    sc.oracles.push(Box::new(or));
    w.run(&mut sc);
    super::c02::liveness_end_checks(&mut w, &sc);
    let mut o = RunOut::from_world(&mut w);
    o.config = format!("server={:?} client={:?} udp_payload(server,clients)=({},{:?}) net={:?} fault_end_ms={} ops={:?}", sc.server_knobs, sc.client_knobs, sc.udp_payload_s, sc.udp_payload_c, w.net, sc.fault_end / 1_000_000, sc.ops);
    let mut bh = 0u64;
    let mut probes = 0u64;
    for c in &w.conns {
        let st = c.conn.stats();
        bh += st.path.black_holes_detected;
        probes += st.path.sent_plpmtud_probes;
    }
    o.stats.insert("black_holes_detected", bh as f64);
    o.stats.insert("plpmtud_probes", probes as f64);
    o
}

const UDP: &[u16] = &[1472, 1200, 1252, 1400, 1500, 9000, 65_527];

/// link MTU changes at arbitrary moments (up and down, never below 1200)
fn fam_link_changes(ch: Chooser, ctx: &RunCtx) -> RunOut {
    run(ch, ctx, BasicOpts { op_kinds: vec![5, 5, 5, 1, 0, 2], ops_max: 6, size_max: 200_000, streams_max: 4, retry: 100, udp_payload_choices: UDP.to_vec(), link_mtu_choices: vec![1500, 1200, 1280, 1400, 1452, 9000, 65_535], ..Default::default() }, true)
}

/// no faults except the link MTU: discovery must find the link MTU, never beyond
fn fam_discovery(ch: Chooser, ctx: &RunCtx) -> RunOut {
    run(ch, ctx, BasicOpts { op_kinds: vec![5, 1], ops_max: 2, fault_phase_max_ms: 0, size_max: 400_000, streams_max: 3, udp_payload_choices: UDP.to_vec(), link_mtu_choices: vec![1500, 1200, 1300, 1452, 4000, 65_535], ..Default::default() }, true)
}

/// migration: path challenges / responses and a fresh estimate on the new path
fn fam_migration(ch: Chooser, ctx: &RunCtx) -> RunOut {
    run(ch, ctx, BasicOpts { op_kinds: vec![7, 7, 5, 1], ops_max: 4, size_max: 100_000, streams_max: 4, retry: 0, cid_len_choices: vec![8, 8, 4, 20], udp_payload_choices: UDP.to_vec(), link_mtu_choices: vec![1500, 1200, 1452, 65_535], ..Default::default() }, true)
}

/// big certificate chains: coalesced multi-datagram handshake flights, loss probes in Initial /
/// Handshake space
fn fam_handshake(ch: Chooser, ctx: &RunCtx) -> RunOut {
    run(ch, ctx, BasicOpts { op_kinds: vec![5, 1], ops_max: 2, big_cert: true, retry: 300, directed_k: 12, directed_max: 3, size_max: 30_000, udp_payload_choices: UDP.to_vec(), link_mtu_choices: vec![1500, 1200, 1452, 65_535], ..Default::default() }, true)
}

/// searches that go down to the byte on links whose MTU sits just above the minimum
fn fam_fine_search(ch: Chooser, ctx: &RunCtx) -> RunOut {
    run2(ch, ctx, BasicOpts { op_kinds: vec![5, 5, 1], ops_max: 3, size_max: 200_000, streams_max: 3, max_drop: 200, udp_payload_choices: UDP.to_vec(), link_mtu_choices: vec![1200, 1201, 1202, 1205, 1230, 1300, 1452, 1500], ..Default::default() }, true, true)
}

/// quinn's defaults and general worlds
fn fam_general(ch: Chooser, ctx: &RunCtx) -> RunOut {
    run(ch, ctx, BasicOpts { op_kinds: vec![0, 1, 2, 3, 4, 5, 7], pad_rate: 150, ..Default::default() }, false)
}

pub fn spec() -> PropSpec {
    PropSpec {
        id: "C13",
        families: vec![
            Family { name: "link-changes", f: fam_link_changes, weight: 30 },
            Family { name: "fine-search", f: fam_fine_search, weight: 15 },
            Family { name: "discovery", f: fam_discovery, weight: 15 },
            Family { name: "migration", f: fam_migration, weight: 20 },
            Family { name: "handshake", f: fam_handshake, weight: 15 },
            Family { name: "general", f: fam_general, weight: 15 },
        ],
        quick_worlds: 100_000,
        thorough_worlds: 1_200_000,
        panic_is_violation: true,
        rule: "each world = one seeded execution of stream workloads under drawn initial_mtu / min_mtu / discovery configurations and peer max_udp_payload_size values, GSO batch sizes 1..10, a link MTU (silent drop threshold) that starts anywhere from 1200 to 65535 and changes at drawn instants, plus the usual loss / duplication / reordering / migration faults; non-trivial = a fault fired or >1 connection; distinct = distinct abstract-event signature",
        assumptions: vec![
            "the link MTU never goes below 1200 (QUIC's minimum) and never below a configured min_mtu (documented as a guarantee the user gives)",
            "'outstanding' for an MTU probe ends when an ACK covering it is accepted, when lost_plpmtud_probes increases, or when the path changes",
            "the peer's max_udp_payload_size binds a sender once it is connected (before that it cannot know the value)",
        ],
        real: super::REAL.to_vec(),
        stub: super::STUB.to_vec(),
    }
}
