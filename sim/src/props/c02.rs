//! C02 — connections make progress: no deadlock under fair loss.
//!
//! Decisive oracle: the *wedge* — in the clean phase, with nothing in flight, no timer armed
//! and no event pending, an incomplete workload can never complete. Backstop: completion
//! within a generous virtual-time bound after the faults stop.

use crate::chooser::Chooser;
use crate::runner::{Family, PropSpec, RunCtx, RunOut};
use crate::scen::{Basic, BasicOpts};
use crate::tap::NO_INC;
use crate::world::World;

/// Describe why the stuck connection cannot move, from observable accounting.
pub fn classify(w: &World, sc: &Basic) -> (String, String) {
    let reason = sc.wl.incomplete_reason(w).unwrap_or_else(|| "?".into());
    let handshake = sc.wl.sides.values().any(|s| !s.connected && s.lost.is_none());
    let mut parts = Vec::new();
    let mut detail = String::new();
    for c in &w.conns {
        if c.drained_handled {
            continue;
        }
        let p = c.conn.verif_probe();
        let mtu = c.conn.current_mtu() as u64;
        let blocker = if p.in_flight_bytes + mtu >= p.window {
            if p.in_flight_ack_eliciting == 0 {
                "cwnd-full-of-unacked-non-eliciting"
            } else {
                "cwnd"
            }
        } else if !p.path_validated && p.path_total_sent + 1 > 3 * p.path_total_recvd {
            "anti-amplification"
        } else {
            "none"
        };
        parts.push(format!("{}={}", if c.side == quinn_proto::Side::Client { "client" } else { "server" }, blocker));
        detail.push_str(&format!(
            " | inc{} {:?} handshaking={} closed={} timer={:?} in_flight={}B/{}ae window={} mtu={} probes={:?} pto_count={} validated={}",
            c.inc,
            c.side,
            c.conn.is_handshaking(),
            c.conn.is_closed(),
            c.timer.map(crate::world::fmt_t),
            p.in_flight_bytes,
            p.in_flight_ack_eliciting,
            p.window,
            mtu,
            p.loss_probes,
            p.pto_count,
            p.path_validated
        ));
    }
    parts.sort();
    parts.dedup();
    let kind = format!("{}/{}", if handshake { "handshake" } else { "transfer" }, parts.join(","));
    let cfg = format!(" | pad_to_mtu(server,client)=({},{}) cc=({},{}) harness_cc=({:?},{:?})", sc.server_knobs.pad_to_mtu, sc.client_knobs.pad_to_mtu, sc.server_knobs.cc, sc.client_knobs.cc, sc.server_knobs.harness_cc, sc.client_knobs.harness_cc);
    (kind, format!("{}{}{}", reason, cfg, detail))
}

pub fn liveness_end_checks(w: &mut World, sc: &Basic) {
    if !w.violations.is_empty() {
        return;
    }
    super::c01::end_checks(w, sc, false);
    if !w.violations.is_empty() || sc.completed_at.is_some() || w.hit_limit.is_some() {
        return;
    }
    if sc.wl.incomplete_reason(w).is_none() {
        return;
    }
    let (k, d) = classify(w, sc);
    if w.queue.is_empty() {
        w.violate(format!("wedge/{}", k), format!("nothing in flight, no timer armed, no event pending, yet: {}", d));
    } else {
        w.violate(format!("no-progress/{}", k), format!("not complete {} of virtual time after the faults stopped: {}", crate::world::fmt_t(w.now.saturating_sub(sc.fault_end)), d));
    }
}

const TAG_TAIL: u64 = crate::scen::TAG_USER + (11 << 30);

/// the workload is complete and the applications do nothing more: run on without them
struct Tail<'a> {
    b: &'a mut Basic,
    until: crate::world::Ns,
}

impl crate::world::Scenario for Tail<'_> {
    fn on_incoming(&mut self, w: &mut World, node: u32, incoming: &quinn_proto::Incoming, dgram: u32) -> crate::world::IncomingAction {
        self.b.on_incoming(w, node, incoming, dgram)
    }
    fn on_accepted(&mut self, w: &mut World, inc: u32, dgram: u32) {
        self.b.on_accepted(w, inc, dgram)
    }
    fn on_event(&mut self, w: &mut World, inc: u32, ev: quinn_proto::Event) {
        self.b.on_event(w, inc, ev)
    }
    fn on_wake(&mut self, w: &mut World, tag: u64) {
        if tag != TAG_TAIL {
            self.b.on_wake(w, tag)
        }
    }
    fn done(&self, w: &World) -> bool {
        w.now >= self.until
    }
}

/// Once everything has been delivered and acknowledged and nobody asks for anything, a
/// connection has nothing to say: count the datagrams of the 30 s that follow a 5 s grace period.
fn quiet_tail(w: &mut World, sc: &mut Basic) -> Option<u64> {
    if !w.violations.is_empty() || w.hit_limit.is_some() || sc.completed_at.is_none() {
        return None;
    }
    let t0 = w.now;
    let settle = t0 + 5 * crate::world::SEC;
    w.wake_at(settle, TAG_TAIL);
    w.run(&mut Tail { b: sc, until: settle });
    let n1 = w.dgrams.len();
    let end = settle + 30 * crate::world::SEC;
    w.wake_at(end, TAG_TAIL);
    w.run(&mut Tail { b: sc, until: end });
    if !w.violations.is_empty() || w.hit_limit.is_some() {
        return None;
    }
    let n = (w.dgrams.len() - n1) as u64;
    // what may legitimately go on: keep-alive PINGs and their acknowledgements, periodic MTU
    // re-probing (a search of up to a dozen probes per round, each acknowledged)
    let mut expected = 0u64;
    let n_conns = (w.conns.len() as u64 / 2).max(1);
    for k in [&sc.server_knobs, &sc.client_knobs] {
        if let Some(ka) = k.keep_alive_ms {
            expected += n_conns * (30_000 / ka.max(1) + 1) * 2;
        }
        if k.mtud {
            let interval = k.mtud_params.map_or(600_000, |p| p.0);
            expected += n_conns * (30_000 / interval.max(1) + 1) * 30;
        }
    }
    let allowed = 200 + 3 * expected;
    // (C02 says nothing about an idle connection staying quiet, so this is a probe and a
    // statistic, not a violation; a real runaway exchange trips the transmit-storm guard)
    let _ = t0;
    if n > allowed {
        w.probes.hit("chatter_after_completion_above_allowance");
    } else {
        w.probes.hit("quiet_after_completion");
    }
    Some(n)
}

fn run(ch: Chooser, ctx: &RunCtx, mut opts: BasicOpts) -> RunOut {
    let mut w = World::from_ctx(ch, ctx);
    // C02 quantifies over loss / duplication / delay and driver schedules: no corruption, no
    // address changes, no application close
    opts.allow_corrupt = false;
    opts.idle_off = true;
    opts.wl.unordered = opts.wl.unordered.max(100);
    opts.wl.lazy = opts.wl.lazy.max(100);
    let mut sc = Basic::build(&mut w, opts);
    w.run(&mut sc);
    liveness_end_checks(&mut w, &sc);
    let tail = quiet_tail(&mut w, &mut sc);
    let mut o = RunOut::from_world(&mut w);
    if let Some(n) = tail {
        o.stats.insert("datagrams_in_30s_after_completion", n as f64);
    }
    o.config = format!("server={:?} client={:?} net={:?} fault_end_ms={} retry={} ops={:?} drops={:?}", sc.server_knobs, sc.client_knobs, w.net, sc.fault_end / 1_000_000, sc.retry_first, sc.ops, w.net.drop_ordinals);
    o.stats.insert("completion_after_clean_ms", sc.completed_at.map_or(-1.0, |t| (t.saturating_sub(sc.fault_end)) as f64 / 1e6));
    let _ = NO_INC;
    o
}

fn fam_fair(ch: Chooser, ctx: &RunCtx) -> RunOut {
    run(ch, ctx, BasicOpts { op_kinds: vec![0, 1, 2, 3, 4, 9], max_drop: 400, pad_rate: 150, keepalive_rate: 100, ..Default::default() })
}

fn fam_directed(ch: Chooser, ctx: &RunCtx) -> RunOut {
    run(ch, ctx, BasicOpts { op_kinds: vec![0, 1, 2, 3, 4], fault_phase_max_ms: 0, directed_k: 14, directed_max: 3, pad_rate: 100, ..Default::default() })
}

fn fam_cc(ch: Chooser, ctx: &RunCtx) -> RunOut {
    run(ch, ctx, BasicOpts { op_kinds: vec![0, 1, 9], harness_cc_rate: 700, size_max: 100_000, max_drop: 200, ..Default::default() })
}

fn fam_bigcert(ch: Chooser, ctx: &RunCtx) -> RunOut {
    run(ch, ctx, BasicOpts { op_kinds: vec![0, 1], big_cert: true, directed_k: 10, directed_max: 2, streams_max: 3, ..Default::default() })
}

fn fam_multi(ch: Chooser, ctx: &RunCtx) -> RunOut {
    run(ch, ctx, BasicOpts { op_kinds: vec![0, 1, 2, 3, 4], n_clients: 2, conns_per_client: 2, streams_max: 4, size_max: 20_000, pad_rate: 100, ..Default::default() })
}

/// more streams than the peer's stream limit allows at a time, receivers that stop streams at
/// any point (also after everything has arrived) and read lazily: progress depends on stream
/// credit being returned in every one of those cases
fn fam_stream_limit(mut ch: Chooser, ctx: &RunCtx) -> RunOut {
    let mut sk = crate::cfgs::TKnobs::default();
    let mut ck = crate::cfgs::TKnobs::default();
    for k in [&mut sk, &mut ck] {
        k.max_bidi = *ch.pick("c02.sl.max_bidi", &[1u64, 2, 3]);
        k.max_uni = *ch.pick("c02.sl.max_uni", &[1u64, 2, 3]);
        k.stream_window = *ch.pick("c02.sl.stream_window", &[1_250_000u64, 1000, 64, 16_384]);
    }
    let mut o = BasicOpts { op_kinds: vec![1], ops_max: 1, streams_max: 10, size_max: 3000, reset_rate: 250, fixed_knobs: Some((sk, ck)), max_drop: 200, ..Default::default() };
    o.wl.stop = 400;
    o.wl.lazy = 400;
    let mut out = run(ch, ctx, o);
    out.nontrivial = true;
    out
}

pub fn spec() -> PropSpec {
    PropSpec {
        id: "C02",
        families: vec![
            Family { name: "fair", f: fam_fair, weight: 40 },
            Family { name: "directed", f: fam_directed, weight: 25 },
            Family { name: "cc", f: fam_cc, weight: 15 },
            Family { name: "bigcert", f: fam_bigcert, weight: 10 },
            Family { name: "multi", f: fam_multi, weight: 10 },
            Family { name: "stream-limit", f: fam_stream_limit, weight: 10 },
        ],
        quick_worlds: 200_000,
        thorough_worlds: 3_000_000,
        panic_is_violation: true,
        rule: "each world = one seeded execution of event-driven workloads (idle timeout and keep-alive off unless drawn) under a fair-loss fault phase followed by a clean phase, or under directed loss of chosen datagrams; non-trivial = a fault fired or >1 connection; distinct = distinct abstract-event signature",
        assumptions: vec![
            "wedge oracle is timing-free: quiescent world + incomplete workload",
            "completion bound after faults stop is 3 h of virtual time (backstop only; observed maximum is reported as stats_max.completion_after_clean_ms)",
            "workloads are sized to be feasible under the drawn windows (a zero window or zero stream limit that is never raised is excluded by construction)",
        ],
        real: super::REAL.to_vec(),
        stub: super::STUB.to_vec(),
    }
}
