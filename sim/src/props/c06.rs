//! C06 — a receiver enforces its own limits and buffers a bounded amount.
//!
//! Part 1 (boundary probes): a client whose correctly protected packets are rewritten by the tap
//! sends one frame sequence that sits one below, exactly at, or one above a limit the victim
//! (server) has advertised — stream data limit, connection data limit, stream count (both
//! directions), final size, datagram size, CRYPTO buffer. The limits "advertised" are computed
//! independently: the victim's configuration plus the MAX_* frames it has sealed so far (tap
//! sender ledger). Expected: at or below the limit the connection lives on; above it the victim
//! ends with exactly the prescribed transport error and its application never obtains the
//! excess bytes.
//!
//! Part 2 (credit return, honest worlds): every MAX_STREAM_DATA / MAX_DATA value a connection
//! seals is at most what its application has consumed (read, or discarded by stop / reset) plus
//! the configured window.

use std::collections::BTreeMap;

use quinn_proto::{ConnectionError, Event, Side};

use crate::app::Workload;
use crate::cfgs::TKnobs;
use crate::chooser::Chooser;
use crate::runner::{Family, PropSpec, RunCtx, RunOut};
use crate::scen::{Basic, BasicOpts, Oracle, TAG_USER};
use crate::tap::NO_INC;
use crate::wire::{self, code::*, put_var, Frame, Space};
use crate::world::{IncomingAction, Scenario, World, MS};

const TAG_PROBE: u64 = TAG_USER + (6 << 30);

#[derive(Clone, Debug)]
struct Probe {
    kind: &'static str,
    delta: i64,
    frames: Vec<u8>,
    /// Some(code): the victim must end with this transport error; None: it must carry on
    expect: Option<u64>,
    /// stream on which bytes beyond `limit` must never reach the application
    watch: Option<(u64, u64)>,
    detail: String,
}

pub struct ProbeScen {
    b: Basic,
    attacker: u32,
    victim: u32,
    /// the client connection of the probed pair
    pair_key: u32,
    /// the server end of the pair sends the probe, the client is the victim
    hostile_server: bool,
    kind: u32,
    delta: i64,
    probe: Option<Probe>,
    sent_at: Option<u64>,
    tries: u32,
}

fn stream_frame(out: &mut Vec<u8>, id: u64, off: u64, len: usize, fin: bool) {
    out.push(0x08 | 0x04 | 0x02 | fin as u8);
    put_var(out, id);
    put_var(out, off);
    put_var(out, len as u64);
    out.extend(std::iter::repeat(0x5a).take(len));
}

impl ProbeScen {
    /// the victim's advertised limits right now: configuration + MAX_* frames it has sealed
    fn victim_knobs(&self) -> &TKnobs {
        if self.hostile_server {
            &self.b.client_knobs
        } else {
            &self.b.server_knobs
        }
    }

    fn advertised(&self, w: &World) -> (u64, BTreeMap<u64, u64>, [u64; 2]) {
        let k = self.victim_knobs();
        let mut max_data = k.conn_window;
        let mut msd: BTreeMap<u64, u64> = BTreeMap::new();
        let mut ms = [k.max_bidi, k.max_uni];
        let t = w.tap.lock().unwrap();
        for p in t.pkts.iter().filter(|p| p.enc && p.inc == self.victim) {
            for f in wire::frames(&p.payload).0 {
                match f {
                    Frame::MaxData(v) => max_data = max_data.max(v),
                    Frame::MaxStreamData { id, max } => {
                        let e = msd.entry(id).or_insert(0);
                        *e = (*e).max(max);
                    }
                    Frame::MaxStreams { bidi, max } => {
                        let i = if bidi { 0 } else { 1 };
                        ms[i] = ms[i].max(max);
                    }
                    _ => {}
                }
            }
        }
        (max_data, msd, ms)
    }

    fn build_probe(&self, w: &World) -> Option<Probe> {
        let k = self.victim_knobs();
        // stream ids the attacker initiates: low bit 1 when the attacker is the server
        let ini: u64 = if self.hostile_server { 1 } else { 0 };
        let uni0 = 2 | ini;
        let (max_data, msd, ms) = self.advertised(w);
        let d = self.delta;
        let mut f = Vec::new();
        match self.kind {
            // data limits on a fresh client-initiated unidirectional stream
            0 => {
                if ms[1] == 0 {
                    return None;
                }
                let id = uni0; // the attacker's unidirectional stream #0
                let l = msd.get(&id).copied().unwrap_or(0).max(k.stream_window);
                let lim = l.min(max_data);
                let end = lim as i64 + d;
                if end < 1 {
                    return None;
                }
                stream_frame(&mut f, id, end as u64 - 1, 1, false);
                Some(Probe { kind: "data-limit", delta: d, frames: f, expect: if end as u64 > lim { Some(FLOW_CONTROL_ERROR) } else { None }, watch: Some((id, lim)), detail: format!("STREAM(id {}, last byte at offset {}) with stream limit {} and connection limit {}", id, end - 1, l, max_data) })
            }
            // stream count, unidirectional / bidirectional
            1 | 2 => {
                let i = if self.kind == 1 { 1 } else { 0 };
                let idx = ms[i] as i64 - 1 + d;
                if idx < 0 {
                    return None;
                }
                let id = ((idx as u64) << 2) | if i == 1 { 2 } else { 0 } | ini;
                stream_frame(&mut f, id, 0, 0, true);
                Some(Probe { kind: if i == 1 { "uni-stream-count" } else { "bidi-stream-count" }, delta: d, frames: f, expect: if idx as u64 >= ms[i] { Some(STREAM_LIMIT_ERROR) } else { None }, watch: None, detail: format!("STREAM on stream index {} with {} streams permitted", idx, ms[i]) })
            }
            // final size below / at / above what was already received
            3 => {
                if ms[1] == 0 || k.stream_window.min(max_data) < 12 {
                    return None;
                }
                let id = uni0;
                stream_frame(&mut f, id, 0, 10, false);
                let fin = 10 + d;
                f.push(0x04);
                put_var(&mut f, id);
                put_var(&mut f, 77);
                put_var(&mut f, fin as u64);
                Some(Probe { kind: "final-size-reset", delta: d, frames: f, expect: if fin < 10 { Some(FINAL_SIZE_ERROR) } else { None }, watch: None, detail: format!("10 bytes of data followed by RESET_STREAM with final size {}", fin) })
            }
            // data beyond a FIN
            4 => {
                if ms[1] == 0 || k.stream_window.min(max_data) < 12 {
                    return None;
                }
                let id = uni0;
                stream_frame(&mut f, id, 0, 5, true);
                let off = 5 + d;
                if off < 1 {
                    return None;
                }
                stream_frame(&mut f, id, off as u64 - 1, 1, false);
                Some(Probe { kind: "data-beyond-fin", delta: d, frames: f, expect: if off > 5 { Some(FINAL_SIZE_ERROR) } else { None }, watch: Some((id, 5)), detail: format!("FIN at 5, then a byte at offset {}", off - 1) })
            }
            // datagram payload around the receive buffer
            5 => {
                let buf = k.dgram_recv_buf?;
                if buf > 1000 {
                    return None;
                }
                // unspecified band between "fits the advertised frame size" and "exceeds the
                // buffer": probe only the two sides of it
                let len = if d > 0 { buf as i64 + d } else { buf as i64 - 3 + d };
                if len < 0 {
                    return None;
                }
                f.push(0x31);
                put_var(&mut f, len as u64);
                f.extend(std::iter::repeat(0x44).take(len as usize));
                Some(Probe { kind: "datagram-size", delta: d, frames: f, expect: if d > 0 { Some(PROTOCOL_VIOLATION) } else { None }, watch: None, detail: format!("DATAGRAM of {} payload bytes with a {}-byte receive buffer", len, buf) })
            }
            // CRYPTO data further ahead than the buffer allows (never contiguous: offset >= 1)
            _ => {
                // the allowance counts from what the victim's TLS stack has consumed: a client
                // has read the session tickets its server sent after the handshake
                let consumed = {
                    let t = w.tap.lock().unwrap();
                    let ranges = |enc: bool, inc: u32| {
                        let mut r = crate::util::Ranges::new();
                        for p in t.pkts.iter().filter(|p| p.enc == enc && p.ok && p.inc == inc && p.space == Space::OneRtt) {
                            for f in wire::frames(&p.payload).0 {
                                if let Frame::Crypto { offset, len } = f {
                                    r.insert(offset, offset + len as u64);
                                }
                            }
                        }
                        r
                    };
                    let (sent, got) = (ranges(true, self.attacker), ranges(false, self.victim));
                    if sent.v != got.v || !got.covers_prefix(got.max_end()) {
                        // (something is still under way: the boundary would move under the probe)
                        return None;
                    }
                    got.max_end() as i64
                };
                let buf = consumed + k.crypto_buffer as i64;
                let end = buf + d;
                if end < 2 {
                    return None;
                }
                f.push(0x06);
                put_var(&mut f, end as u64 - 1);
                put_var(&mut f, 1);
                f.push(0x16);
                Some(Probe { kind: "crypto-buffer", delta: d, frames: f, expect: if end > buf { Some(CRYPTO_BUFFER_EXCEEDED) } else { None }, watch: None, detail: format!("CRYPTO byte at offset {} with {} bytes consumed and a {}-byte buffer", end - 1, consumed, k.crypto_buffer) })
            }
        }
    }
}

impl Scenario for ProbeScen {
    fn on_incoming(&mut self, w: &mut World, node: u32, incoming: &quinn_proto::Incoming, dgram: u32) -> IncomingAction {
        self.b.on_incoming(w, node, incoming, dgram)
    }
    fn on_accepted(&mut self, w: &mut World, inc: u32, dgram: u32) {
        self.b.on_accepted(w, inc, dgram);
        if w.conns[inc as usize].peer == self.pair_key && self.victim == NO_INC {
            if self.hostile_server {
                self.attacker = inc;
                self.victim = self.pair_key;
            } else {
                self.victim = inc;
            }
            // the victim application only reads on this connection, the attacker's carries
            // nothing but the probe
            if let Some(s) = self.b.wl.sides.get_mut(&inc) {
                s.plans.clear();
            }
        }
    }
    fn on_event(&mut self, w: &mut World, inc: u32, ev: Event) {
        self.b.on_event(w, inc, ev)
    }
    fn on_wake(&mut self, w: &mut World, tag: u64) {
        if tag == TAG_PROBE {
            let ready = self.victim != NO_INC && self.attacker != NO_INC && self.b.wl.sides.get(&self.attacker).is_some_and(|s| s.confirmed) && self.b.wl.sides.get(&self.victim).is_some_and(|s| s.connected) && !w.conns[self.attacker as usize].conn.is_closed();
            if ready && self.sent_at.is_none() {
                if let Some(p) = self.build_probe(w) {
                    w.tap.lock().unwrap().inject.entry((self.attacker, Space::OneRtt)).or_default().push_back((p.frames.clone(), false));
                    w.conn_mut(self.attacker).ping();
                    self.sent_at = Some(w.now);
                    w.faults.hit("inject_boundary_probe");
                    w.logf(|| format!("probe {:?}", p));
                    self.probe = Some(p);
                } else {
                    w.probes.hit("probe_not_applicable");
                    self.sent_at = Some(w.now);
                }
            } else if self.sent_at.is_none() {
                self.tries += 1;
                if self.tries < 200 {
                    w.wake_in(20 * MS, TAG_PROBE);
                }
            }
        } else {
            self.b.on_wake(w, tag)
        }
    }
    fn after_step(&mut self, w: &mut World) {
        self.b.after_step(w);
    }
    fn done(&self, w: &World) -> bool {
        self.b.done(w) && (self.tries >= 200 || self.sent_at.is_some_and(|t| w.now > t + 3000 * MS))
    }
}

fn run_probe(ch: Chooser, ctx: &RunCtx) -> RunOut {
    let mut w = World::from_ctx(ch, ctx);
    let mut opts = BasicOpts { n_clients: 2, conns_per_client: 1, streams_max: 2, size_max: 4000, ..Default::default() };
    opts.idle_off = true;
    opts.ops_max = 0;
    opts.allow_corrupt = false;
    opts.fault_phase_max_ms = 0;
    opts.retry = 0;
    opts.cid_len_choices = vec![8, 4, 20];
    opts.force_client_pad = true;
    let mut sk = TKnobs::default();
    sk.stream_window = *w.ch.pick("c06.stream_window", &[64u64, 1, 2, 63, 65, 1000, 16_383, 16_384, 16_385, 70_000]);
    sk.conn_window = *w.ch.pick("c06.conn_window", &[64u64, 1, 2, 63, 65, 500, 16_384, 100_000, (1 << 62) - 1]);
    sk.max_bidi = *w.ch.pick("c06.max_bidi", &[1u64, 0, 2, 3, 64, 100]);
    sk.max_uni = *w.ch.pick("c06.max_uni", &[1u64, 0, 2, 3, 64, 100]);
    sk.dgram_recv_buf = *w.ch.pick("c06.dgram_recv_buf", &[Some(100usize), None, Some(1), Some(50), Some(1000), Some(1_250_000)]);
    sk.crypto_buffer = *w.ch.pick("c06.crypto_buffer", &[16_384usize, 1500, 2000, 4096]);
    let ck = TKnobs { pad_to_mtu: true, ..Default::default() };
    // one world in three: the limits are the client's and the server end sends the probe
    let hostile_server = w.ch.chance("c06.hostile_server", 1, 3);
    opts.fixed_knobs = Some(if hostile_server { (ck, sk) } else { (sk, ck) });
    let mut b = Basic::build(&mut w, opts);
    let attacker = *b.client_incs.first().unwrap_or(&NO_INC);
    b.wl.unchecked.insert(attacker);
    // the attacker's connection carries nothing but the probe
    if let Some(s) = b.wl.sides.get_mut(&attacker) {
        s.plans.clear();
    }
    let kind = w.ch.choose("c06.kind", 7);
    let delta = *w.ch.pick("c06.delta", &[1i64, 0, -1, 2, 1, 0]);
    if hostile_server {
        w.faults.hit("hostile_server");
    }
    let mut sc = ProbeScen { b, attacker: if hostile_server { NO_INC } else { attacker }, victim: NO_INC, pair_key: attacker, hostile_server, kind, delta, probe: None, sent_at: None, tries: 0 };
    let start = w.ch.range_log("c06.start_ms", 0, 400) * MS;
    w.wake_at(start, TAG_PROBE);
    w.run(&mut sc);

    if w.violations.is_empty() {
        if let (Some(p), true) = (&sc.probe, sc.victim != NO_INC) {
            let injected = w.tap.lock().unwrap().injected > 0;
            let outcome = w.conns[sc.victim as usize].lost.first().cloned();
            if injected {
                match (&p.expect, &outcome) {
                    (Some(code), Some(ConnectionError::TransportError(e))) if u64::from(e.code) == *code => {
                        w.probes.hit("over_limit_rejected_with_right_code");
                    }
                    (Some(code), other) => {
                        let (k, d) = (format!("limit-not-enforced/{}", p.kind), format!("{} (delta {:+}): expected the victim to end with transport error 0x{:x}, outcome was {:?}", p.detail, p.delta, code, other.as_ref().map(|e| e.to_string())));
                        w.violate(k, d);
                    }
                    (None, Some(ConnectionError::TransportError(e))) => {
                        let (k, d) = (format!("within-limit-rejected/{}", p.kind), format!("{} (delta {:+}) is within what the victim advertised, yet it ended with {}", p.detail, p.delta, e));
                        w.violate(k, d);
                    }
                    (None, _) => w.probes.hit("within_limit_accepted"),
                }
            }
            if w.violations.is_empty() {
                if let Some((sid, lim)) = p.watch {
                    if let Some(r) = sc.b.wl.sides.get(&sc.victim).and_then(|s| s.recvs.get(&sid)) {
                        if r.pos > lim {
                            let (k, d) = (format!("over-limit-data-delivered/{}", p.kind), format!("the victim application read {} bytes on stream {} although only {} were ever permitted", r.pos, sid, lim));
                            w.violate(k, d);
                        }
                    }
                }
            }
        }
    }
    if w.violations.is_empty() {
        // the other client's connection is untouched
        for c in &w.conns {
            let key = if c.side == Side::Client { c.inc } else { c.peer };
            if key == sc.pair_key || key == NO_INC {
                continue;
            }
            if let Some(r) = c.lost.first() {
                let (k, d) = ("honest-connection-disturbed".to_string(), format!("inc{} lost: {}", c.inc, r));
                w.violate(k, d);
                break;
            }
        }
    }
    let mut o = RunOut::from_world(&mut w);
    o.config = format!("kind={} delta={} probe={:?} server={:?}", sc.kind, sc.delta, sc.probe, sc.b.server_knobs);
    o
}

// ---------------------------------------------------------------------------------------------

/// credit is returned only for what the application consumed or discarded
pub struct CreditReturnOracle {
    pub server: TKnobs,
    pub client: TKnobs,
    seen: usize,
    /// per connection: stream -> highest offset + 1 received in accepted STREAM / RESET frames
    recvd: BTreeMap<u32, BTreeMap<u64, u64>>,
    /// per connection: streams for which a RESET_STREAM was accepted (the transport discards
    /// what is buffered right then, before the application learns of it)
    reset: BTreeMap<u32, std::collections::BTreeSet<u64>>,
    pub checked: u64,
}

impl CreditReturnOracle {
    pub fn new(server: TKnobs, client: TKnobs) -> Self {
        Self { server, client, seen: 0, recvd: BTreeMap::new(), reset: BTreeMap::new(), checked: 0 }
    }
}

impl Oracle for CreditReturnOracle {
    fn after_step(&mut self, w: &mut World, wl: &Workload) {
        let tap = w.tap.clone();
        let t = tap.lock().unwrap();
        let mut problem: Option<(String, String)> = None;
        for p in &t.pkts[self.seen..] {
            if p.inc == NO_INC || (p.inc as usize) >= w.conns.len() || !matches!(p.space, Space::OneRtt | Space::ZeroRtt) {
                continue;
            }
            let (frames, _) = wire::frames(&p.payload);
            if !p.enc {
                if !p.ok {
                    continue;
                }
                let m = self.recvd.entry(p.inc).or_default();
                for f in &frames {
                    let (id, end) = match f {
                        Frame::Stream { id, offset, len, .. } => (*id, offset + *len as u64),
                        Frame::ResetStream { id, final_size, .. } => (*id, *final_size),
                        _ => continue,
                    };
                    let e = m.entry(id).or_insert(0);
                    *e = (*e).max(end);
                    if matches!(f, Frame::ResetStream { .. }) {
                        self.reset.entry(p.inc).or_default().insert(id);
                    }
                }
                continue;
            }
            let Some(side) = wl.sides.get(&p.inc) else { continue };
            let k = if w.conns[p.inc as usize].side == Side::Server { &self.server } else { &self.client };
            for f in &frames {
                match f {
                    Frame::MaxStreamData { id, max } => {
                        self.checked += 1;
                        let read = side.recvs.get(id).map_or(0, |r| r.pos);
                        if *max > read + k.stream_window {
                            problem = Some(("stream-credit-exceeds-consumed-plus-window".into(), format!("inc{} sealed MAX_STREAM_DATA({}, {}) but its application has read {} bytes of that stream and the window is {}", p.inc, id, max, read, k.stream_window)));
                        }
                    }
                    Frame::MaxData(max) => {
                        self.checked += 1;
                        // consumed: bytes read; discarded: everything received on streams the
                        // application stopped or that were reset
                        let rec = self.recvd.get(&p.inc);
                        let mut consumed = 0u64;
                        let resets = self.reset.get(&p.inc);
                        let mut seen_ids = std::collections::BTreeSet::new();
                        for (id, r) in &side.recvs {
                            seen_ids.insert(*id);
                            let got = rec.and_then(|m| m.get(id)).copied().unwrap_or(0);
                            let was_reset = resets.is_some_and(|s| s.contains(id));
                            consumed += match r.terminal {
                                Some(crate::app::RTerm::Stopped(_)) | Some(crate::app::RTerm::Reset(_)) => got.max(r.pos),
                                _ if was_reset => got.max(r.pos),
                                _ => r.pos,
                            };
                        }
                        // reset streams the application has not even accepted yet
                        if let (Some(rs), Some(m)) = (resets, rec) {
                            for id in rs {
                                if !seen_ids.contains(id) {
                                    consumed += m.get(id).copied().unwrap_or(0);
                                }
                            }
                        }
                        // streams that arrived but the application has not accepted yet hold
                        // nothing it consumed
                        if *max > consumed.saturating_add(k.conn_window) {
                            problem = Some(("connection-credit-exceeds-consumed-plus-window".into(), format!("inc{} sealed MAX_DATA({}) but its application has consumed or discarded {} bytes and the window is {}", p.inc, max, consumed, k.conn_window)));
                        }
                    }
                    _ => {}
                }
            }
            if problem.is_some() {
                break;
            }
        }
        self.seen = t.pkts.len();
        drop(t);
        if let Some((k, d)) = problem {
            w.violate(k, d);
        }
    }
}

fn run_credit(ch: Chooser, ctx: &RunCtx, mut opts: BasicOpts) -> RunOut {
    let mut w = World::from_ctx(ch, ctx);
    opts.allow_corrupt = false;
    opts.op_kinds = vec![0, 1, 4];
    opts.wl.stop = 300;
    opts.wl.unordered = 200;
    opts.wl.lazy = 500;
    let mut sk = TKnobs::draw(&mut w.ch);
    let mut ck = TKnobs::draw(&mut w.ch);
    for k in [&mut sk, &mut ck] {
        k.stream_window = *w.ch.pick("c06.cr.stream_window", &[1000u64, 1, 64, 5000, 16_384, 100_000]);
        k.conn_window = *w.ch.pick("c06.cr.conn_window", &[5000u64, 64, 1000, 16_384, 200_000]);
    }
    opts.fixed_knobs = Some((sk, ck));
    let mut sc = Basic::build(&mut w, opts);
    sc.oracles.push(Box::new(CreditReturnOracle::new(sc.server_knobs.clone(), sc.client_knobs.clone())));
    w.run(&mut sc);
    super::c01::end_checks(&mut w, &sc, false);
    let mut o = RunOut::from_world(&mut w);
    o.config = format!("server={:?} client={:?} net={:?} ops={:?}", sc.server_knobs, sc.client_knobs, w.net, sc.ops);
    o
}

fn fam_probe(ch: Chooser, ctx: &RunCtx) -> RunOut {
    run_probe(ch, ctx)
}
fn fam_credit(ch: Chooser, ctx: &RunCtx) -> RunOut {
    run_credit(ch, ctx, BasicOpts { streams_max: 6, size_max: 60_000, reset_rate: 350, ..Default::default() })
}
fn fam_credit_multi(ch: Chooser, ctx: &RunCtx) -> RunOut {
    run_credit(ch, ctx, BasicOpts { n_clients: 2, conns_per_client: 2, streams_max: 4, size_max: 20_000, reset_rate: 350, ..Default::default() })
}

pub fn spec() -> PropSpec {
    PropSpec {
        id: "C06",
        families: vec![Family { name: "boundary-probe", f: fam_probe, weight: 55 }, Family { name: "credit-return", f: fam_credit, weight: 30 }, Family { name: "credit-return-multi", f: fam_credit_multi, weight: 15 }],
        quick_worlds: 180_000,
        thorough_worlds: 2_700_000,
        panic_is_violation: true,
        rule: "boundary-probe worlds = a server with limits drawn from {0,1,2,3, values around 2^6 and 2^14, defaults}, an honest client and a client whose correctly protected 1-RTT packets are rewritten to carry one frame sequence one below, at, or one/two above an advertised limit (stream data, connection data, stream count uni/bidi, final size by RESET_STREAM, data beyond FIN, datagram size, CRYPTO buffer) at a drawn instant; credit-return worlds = honest transfers with readers that stop streams, read unordered or in small pieces, senders that reset, run-time stream-limit changes, and loss / duplication / reordering; non-trivial = a probe or fault fired; distinct = distinct abstract-event signature",
        assumptions: vec![
            "'advertised' = the victim's configured initial limits plus the largest MAX_DATA / MAX_STREAM_DATA / MAX_STREAMS it has sealed before the probe was built (tap sender ledger)",
            "for datagrams only payloads larger than the receive buffer (must be refused) and payloads that fit the advertised frame size (must be accepted) are probed; the three bytes in between are left unspecified",
            "consumed = bytes the application read; discarded = everything received on a stream it stopped or that was reset",
        ],
        real: super::REAL.to_vec(),
        stub: super::STUB.to_vec(),
    }
}
