use crate::chooser::Chooser;
use crate::runner::{run_family, seed_for, PropSpec, RunCtx};

/// Determinism selftest: every family, N seeds, each executed twice in this process; the
/// digests (choice list, trace, signature, step count, virtual end time) must agree. The
/// cross-process half is done by `bin/selftest`, which runs this twice with different thread
/// counts and compares the printed digests.
pub fn run(specs: &[PropSpec], tier: &str, verif_seed: u64) -> i32 {
    let n: u64 = if tier == "thorough" { 300 } else { 25 };
    let mut bad = 0;
    let mut total = 0u64;
    let mut digest_all = 0u64;
    for spec in specs {
        for (fi, fam) in spec.families.iter().enumerate() {
            let mut fam_digest = 0u64;
            for i in 0..n {
                let seed = seed_for(verif_seed ^ 0x5E1F, spec.id, fi, i);
                let a = run_family(fam.f, Chooser::generate(seed), &RunCtx::default());
                let b = run_family(fam.f, Chooser::generate(seed), &RunCtx::default());
                // replay of the recorded choices must also give the same execution
                let c = run_family(fam.f, Chooser::replay(a.choices.clone()), &RunCtx::default());
                total += 1;
                let da = digest(&a);
                if da != digest(&b) || da != digest(&c) {
                    bad += 1;
                    eprintln!("NONDETERMINISM property={} family={} seed={} (gen/gen/replay digests {:x} {:x} {:x})", spec.id, fam.name, seed, da, digest(&b), digest(&c));
                }
                fam_digest = crate::chooser::mix(&[fam_digest, da]);
            }
            println!("selftest {} {} n={} digest={:016x}", spec.id, fam.name, n, fam_digest);
            digest_all = crate::chooser::mix(&[digest_all, fam_digest]);
        }
    }
    println!("selftest total={} nondeterministic={} DIGEST={:016x}", total, bad, digest_all);
    if bad > 0 {
        2
    } else {
        0
    }
}

pub fn digest(o: &crate::runner::RunOut) -> u64 {
    let mut h = crate::chooser::mix(&[o.sig, o.steps, o.sim_ns, o.choices.len() as u64, o.violations.len() as u64, o.panic.is_some() as u64]);
    for c in &o.choices {
        h = crate::chooser::mix(&[h, *c as u64]);
    }
    for t in &o.trace {
        h = crate::chooser::mix(&[h, *t]);
    }
    h
}
