//! C04 — only authentic packets are acted on, each at most once.

use std::collections::{BTreeMap, BTreeSet};

use quinn_proto::crypto::HmacKey;
use quinn_proto::{ConnectionError, Event, Side};

use crate::app::Workload;
use crate::chooser::Chooser;
use crate::runner::{Family, PropSpec, RunCtx, RunOut};
use crate::scen::{Basic, BasicOpts, Oracle, TAG_USER};
use crate::tap::NO_INC;
use crate::util::fnv;
use crate::wire::{self, Frame, Space};
use crate::world::{IncomingAction, Routed, Scenario, World, MS, NO_NODE};

fn stat_index(f: &Frame) -> Option<usize> {
    Some(match f {
        Frame::Padding(_) => return None,
        Frame::Ack { .. } => 0,
        Frame::AckFrequency { .. } => 1,
        Frame::Crypto { .. } => 2,
        Frame::ConnectionClose { .. } | Frame::ApplicationClose { .. } => 3,
        Frame::DataBlocked(_) => 4,
        Frame::Datagram { .. } => 5,
        Frame::HandshakeDone => 6,
        Frame::ImmediateAck => 7,
        Frame::MaxData(_) => 8,
        Frame::MaxStreamData { .. } => 9,
        Frame::MaxStreams { bidi: true, .. } => 10,
        Frame::MaxStreams { bidi: false, .. } => 11,
        Frame::NewConnectionId { .. } => 12,
        Frame::NewToken { .. } => 13,
        Frame::PathChallenge(_) => 14,
        Frame::PathResponse(_) => 15,
        Frame::Ping => 16,
        Frame::ResetStream { .. } => 17,
        Frame::RetireConnectionId { .. } => 18,
        Frame::StreamDataBlocked { .. } => 19,
        Frame::StreamsBlocked { bidi: true, .. } => 20,
        Frame::StreamsBlocked { bidi: false, .. } => 21,
        Frame::StopSending { .. } => 22,
        Frame::Stream { .. } => 23,
    })
}

const STAT_NAMES: [&str; 24] = [
    "ACK", "ACK_FREQUENCY", "CRYPTO", "CLOSE", "DATA_BLOCKED", "DATAGRAM", "HANDSHAKE_DONE", "IMMEDIATE_ACK", "MAX_DATA", "MAX_STREAM_DATA", "MAX_STREAMS_BIDI", "MAX_STREAMS_UNI", "NEW_CONNECTION_ID", "NEW_TOKEN", "PATH_CHALLENGE", "PATH_RESPONSE", "PING", "RESET_STREAM",
    "RETIRE_CONNECTION_ID", "STREAM_DATA_BLOCKED", "STREAMS_BLOCKED_BIDI", "STREAMS_BLOCKED_UNI", "STOP_SENDING", "STREAM",
];

/// Oracle over the tap ledgers and the per-call frame_rx deltas.
#[derive(Default)]
pub struct AuthOracle {
    pkts_seen: usize,
    deltas_seen: usize,
    /// sender ledger: (sender inc, space, pn) -> payload hash
    sent: BTreeMap<(u32, u8, u64), u64>,
    /// packets already accepted by a receiver: (receiver inc, pn space, pn)
    accepted: BTreeSet<(u32, u8, u64)>,
    /// receivers that have accepted at least one packet
    has_accepted: BTreeSet<u32>,
    last_remote: BTreeMap<u32, std::net::SocketAddr>,
    /// distinct tokens seen in each client's Initial packets
    initial_tokens: BTreeMap<u32, Vec<u64>>,
    pub accepted_total: u64,
    pub dup_accept_attempts: u64,
}

impl AuthOracle {
    fn ingest(&mut self, w: &mut World) {
        let tap = w.tap.clone();
        let t = tap.lock().unwrap();
        // sender ledger first (records are appended in time order)
        for p in &t.pkts[self.pkts_seen..] {
            if p.enc && p.inc != NO_INC {
                self.sent.insert((p.inc, p.space as u8, p.pn), fnv(&p.payload));
                if p.space == Space::Initial && w.conns.get(p.inc as usize).is_some_and(|c| c.side == Side::Client) {
                    if let Ok(h) = wire::plain_header(&p.header) {
                        let th = fnv(&h.token);
                        let v = self.initial_tokens.entry(p.inc).or_default();
                        if v.last() != Some(&th) {
                            v.push(th);
                        }
                    }
                }
            }
        }
        self.pkts_seen = t.pkts.len();
        drop(t);
        // per-call deltas
        let n = w.rx_deltas.len();
        for di in self.deltas_seen..n {
            let d = w.rx_deltas[di].clone();
            let t = tap.lock().unwrap();
            let mut expected = [0u64; 24];
            let mut first_seen = 0;
            let mut any_ok = false;
            let mut problems: Vec<(String, String)> = Vec::new();
            for p in &t.pkts[d.pkts_from..d.pkts_to] {
                if p.enc || !p.ok || p.inc != d.inc {
                    continue;
                }
                any_ok = true;
                self.accepted_total += 1;
                self.has_accepted.insert(d.inc);
                // authentic-only: identical to a packet the paired peer sealed
                let peer = w.conns[d.inc as usize].peer;
                let key = (peer, p.space as u8, p.pn);
                match self.sent.get(&key) {
                    Some(h) if *h == fnv(&p.payload) => {}
                    Some(_) => problems.push(("accepted-altered-packet".into(), format!("inc{} accepted {} pn={} whose plaintext differs from what inc{} sealed", d.inc, p.space.name(), p.pn, peer))),
                    None => {
                        if peer != NO_INC {
                            problems.push(("accepted-packet-never-sent".into(), format!("inc{} accepted {} pn={} which its peer inc{} never sealed (datagram #{})", d.inc, p.space.name(), p.pn, peer, d.dgram)));
                        }
                    }
                }
                let pk = (d.inc, p.space.pn_space() as u8, p.pn);
                if self.accepted.insert(pk) {
                    first_seen += 1;
                    let (fr, _) = wire::frames(&p.payload);
                    for f in &fr {
                        if let Some(i) = stat_index(f) {
                            expected[i] += 1;
                        }
                    }
                } else {
                    self.dup_accept_attempts += 1;
                    w.probes.hit("duplicate_packet_authenticated");
                }
            }
            drop(t);
            for (k, dd) in problems {
                w.violate(k, dd);
                return;
            }
            for i in 0..24 {
                let delta = d.after[i].saturating_sub(d.before[i]);
                if delta > expected[i] {
                    let dg = &w.dgrams[d.dgram as usize];
                    let what = if first_seen == 0 { "no packet was accepted for the first time in this call" } else { "more than the first-seen accepted packets contain" };
                    w.violate(
                        "processed-more-than-once",
                        format!("inc{} frame_rx.{} grew by {} while handling datagram #{} ({}{}): {} (at most {} such frames in first-seen packets)", d.inc, STAT_NAMES[i], delta, d.dgram, if dg.genuine { "genuine" } else { "non-genuine" }, if dg.note.is_empty() { String::new() } else { format!(", {}", dg.note) }, what, expected[i]),
                    );
                    return;
                }
            }
            // a datagram none of whose packets was accepted must have no effect
            if !any_ok {
                let evs: Vec<u32> = w.step_events.iter().filter(|(i, _)| *i == d.inc).map(|(_, k)| *k).collect();
                let lost = w.conns[d.inc as usize].lost.last().cloned();
                let fresh_client = w.conns[d.inc as usize].side == Side::Client && !self.has_accepted.contains(&d.inc);
                for k in evs {
                    let excused = k == 4 && matches!(lost, Some(ConnectionError::Reset)) || k == 4 && fresh_client && matches!(lost, Some(ConnectionError::VersionMismatch));
                    if !excused {
                        w.violate("event-without-accepted-packet", format!("inc{} emitted application event kind {} while handling datagram #{} none of whose packets authenticated (lost={:?})", d.inc, k, d.dgram, lost));
                        return;
                    }
                }
            }
        }
        self.deltas_seen = n;
    }
}

impl Oracle for AuthOracle {
    fn after_step(&mut self, w: &mut World, _wl: &Workload) {
        self.ingest(w);
        if !w.violations.is_empty() {
            return;
        }
        // remote address may only change in a step that accepted a packet
        for i in 0..w.conns.len() {
            let ra = w.conns[i].conn.remote_address();
            let prev = self.last_remote.insert(i as u32, ra);
            if let Some(p) = prev {
                if p != ra {
                    let ok_now = w.step_dgram != u32::MAX && w.rx_deltas.last().is_some_and(|d| d.dgram == w.step_dgram && d.inc == i as u32) && {
                        let d = w.rx_deltas.last().unwrap();
                        let t = w.tap.lock().unwrap();
                        t.pkts[d.pkts_from..d.pkts_to].iter().any(|p| !p.enc && p.ok && p.inc == i as u32)
                    };
                    // (path validation failure legitimately reverts the address on a timer)
                    let reverting = w.step_dgram == u32::MAX;
                    if !ok_now && !reverting {
                        w.violate("remote-address-changed-without-accepted-packet", format!("inc{} remote address {} -> {}", i, p, ra));
                        return;
                    }
                }
            }
        }
        // connection-ending events
        let evs = w.step_events.clone();
        for (inc, kind) in evs {
            if kind != 4 {
                continue;
            }
            let reason = w.conns[inc as usize].lost.last().cloned();
            match reason {
                Some(ConnectionError::Reset) => {
                    let dg = w.step_dgram;
                    if dg == u32::MAX {
                        w.violate("reset-without-datagram", format!("inc{} reported Reset in a step that delivered no datagram", inc));
                        return;
                    }
                    let bytes = w.dgrams[dg as usize].bytes.clone();
                    let tail = &bytes[bytes.len().saturating_sub(16)..];
                    if !self.token_is_legit(w, inc, tail) {
                        let whose = self.token_owner(w, inc, tail);
                        w.violate("reset-with-wrong-token", format!("inc{} reported Reset for datagram #{} whose last 16 bytes {} are not the reset token of a connection ID it has used or been told to use next ({})", inc, dg, crate::util::hex(tail), whose));
                        return;
                    }
                    w.probes.hit("stateless_reset_accepted");
                }
                Some(ConnectionError::VersionMismatch) => {
                    if w.conns[inc as usize].side != Side::Client || self.has_accepted.contains(&inc) {
                        w.violate("version-negotiation-after-server-packet", format!("inc{} ({:?}) ended with VersionMismatch although it had already accepted a packet", inc, w.conns[inc as usize].side));
                        return;
                    }
                    w.probes.hit("version_negotiation_ended_client");
                }
                _ => {}
            }
        }
        // Retry followed at most once
        for (inc, toks) in &self.initial_tokens {
            if toks.len() > 2 {
                w.violate("retry-followed-more-than-once", format!("inc{} used {} different tokens in its Initial packets", inc, toks.len()));
                return;
            }
        }
    }
}

impl AuthOracle {
    /// is `tail` the stateless reset token the peer endpoint would issue for any CID the peer
    /// connection issued to `inc`?
    /// which of the peer's connection IDs (if any) the token belongs to — for the report
    fn token_owner(&self, w: &World, inc: u32, tail: &[u8]) -> String {
        let peer = w.conns[inc as usize].peer;
        if peer == NO_INC {
            return "no peer".into();
        }
        let peer_node = w.conns[peer as usize].node;
        let key = crate::cfgs::reset_key(w.reset_key_seeds.get(&peer_node).copied().unwrap_or(0));
        let t = w.tap.lock().unwrap();
        let mut out = Vec::new();
        let mut max_rpt = 0;
        for p in t.pkts.iter().filter(|p| p.enc && p.inc == peer) {
            for f in wire::frames(&p.payload).0 {
                if let Frame::NewConnectionId { seq, retire_prior_to, cid, .. } = f {
                    max_rpt = max_rpt.max(retire_prior_to);
                    let mut sig = vec![0u8; key.signature_len()];
                    key.sign(&cid, &mut sig);
                    if sig[..16] == *tail && !out.contains(&seq) {
                        out.push(seq);
                    }
                }
            }
        }
        let used: BTreeSet<Vec<u8>> = t.pkts.iter().filter(|p| p.enc && p.inc == inc).filter_map(|p| wire::plain_header(&p.header).ok().map(|h| h.dcid)).collect();
        format!("it is the token of the peer's connection ID sequence {:?}; largest retire_prior_to the peer sent {}; destination CIDs used so far: {:?}", out, max_rpt, used.iter().map(|c| crate::util::hex(c)).collect::<Vec<_>>())
    }

    fn token_is_legit(&self, w: &World, inc: u32, tail: &[u8]) -> bool {
        let peer = w.conns[inc as usize].peer;
        if peer == NO_INC {
            return false;
        }
        let peer_node = w.conns[peer as usize].node;
        let key = crate::cfgs::reset_key(w.reset_key_seeds.get(&peer_node).copied().unwrap_or(0));
        let t = w.tap.lock().unwrap();
        // RFC 9000 §10.3.1: tokens of connection IDs the endpoint has *used for sending*: the
        // destination CIDs of the packets `inc` itself sealed
        let mut cids: BTreeSet<Vec<u8>> = BTreeSet::new();
        for p in t.pkts.iter().filter(|p| p.enc && p.inc == inc) {
            if let Ok(h) = wire::plain_header(&p.header) {
                if !h.dcid.is_empty() {
                    cids.insert(h.dcid.clone());
                }
            }
        }
        // ... and the one it may have switched to already without having sent anything yet: which
        // one that is depends on the order in which NEW_CONNECTION_ID frames arrived (a server
        // still on the client's initial CID switches at once to the next one it knows, and a
        // retransmission lists the frames in another order), so every CID it has received, that
        // the largest retire_prior_to it accepted does not cover and that it has not itself
        // retired is a candidate
        let mut known: BTreeMap<u64, Vec<u8>> = BTreeMap::new();
        let mut max_rpt = 0u64;
        for p in t.pkts.iter().filter(|p| !p.enc && p.ok && p.inc == inc) {
            // sequence number 0 is the source connection ID of the peer's handshake packets (its
            // token travels in the transport parameters): adopted on the first packet accepted
            // from the peer, possibly long before anything can be sent to it (a congestion-blocked
            // client says nothing for a while after the server's first flight)
            if let Ok(h) = wire::plain_header(&p.header) {
                if !h.scid.is_empty() {
                    known.entry(0).or_insert(h.scid);
                }
            }
            for f in wire::frames(&p.payload).0 {
                if let Frame::NewConnectionId { seq, retire_prior_to, cid, .. } = f {
                    known.insert(seq, cid);
                    max_rpt = max_rpt.max(retire_prior_to);
                }
            }
        }
        let mut retired: BTreeSet<u64> = BTreeSet::new();
        for p in t.pkts.iter().filter(|p| p.enc && p.inc == inc) {
            for f in wire::frames(&p.payload).0 {
                if let Frame::RetireConnectionId { seq } = f {
                    retired.insert(seq);
                }
            }
        }
        // (retiring everything below n means n or something later is in use)
        let floor = retired.iter().next_back().map_or(0, |m| *m + 1).max(max_rpt);
        for (_, cid) in known.range(floor..) {
            cids.insert(cid.clone());
        }
        cids.iter().any(|cid| {
            let mut sig = vec![0u8; key.signature_len()];
            key.sign(cid, &mut sig);
            sig[..16] == *tail
        })
    }
}

const TAG_INJECT: u64 = TAG_USER + (1 << 30);

pub struct C04Scen {
    pub b: Basic,
    pub n_inject: u32,
    pub kinds: Vec<u8>,
    pub restart_at: Option<u64>,
}

impl C04Scen {
    fn pick_genuine(&self, w: &mut World, to_server: Option<bool>) -> Option<u32> {
        let cands: Vec<u32> = w.dgrams.iter().filter(|d| d.genuine && d.origin_node != NO_NODE && !d.bytes.is_empty() && to_server.is_none_or(|s| (d.dst == self.b.server_addr) == s)).map(|d| d.id).collect();
        if cands.is_empty() {
            return None;
        }
        // bias towards early (connection-creating) and recent datagrams
        let i = match w.ch.weighted("c04.pick.bias", &[2, 1, 1]) {
            0 => w.ch.choose("c04.pick.any", cands.len() as u32) as usize,
            1 => w.ch.choose("c04.pick.early", (cands.len() as u32).min(4)) as usize,
            _ => cands.len() - 1 - w.ch.choose("c04.pick.late", (cands.len() as u32).min(6)) as usize,
        };
        Some(cands[i])
    }

    fn inject_one(&mut self, w: &mut World) {
        let kind = *w.ch.pick("c04.inject.kind", &self.kinds);
        let delay = w.ch.range_log("c04.inject.delay_us", 0, 3_000_000) * 1000;
        let at = w.now + delay;
        match kind {
            // replay a genuine datagram, same addresses
            0 => {
                if let Some(id) = self.pick_genuine(w, None) {
                    let d = w.dgrams[id as usize].clone();
                    w.inject(at, d.src, d.dst, d.bytes, d.ecn, true, id, "replay");
                    w.faults.hit("replay");
                }
            }
            // cross-splice: a packet of one connection with the destination CID of another
            1 => {
                let a = self.pick_genuine(w, Some(true));
                let b = self.pick_genuine(w, Some(true));
                if let (Some(a), Some(b)) = (a, b) {
                    let (da, db) = (w.dgrams[a as usize].clone(), w.dgrams[b as usize].clone());
                    if da.origin_inc != db.origin_inc && da.bytes[0] & 0x80 == 0 && db.bytes[0] & 0x80 == 0 {
                        let cl = w.nodes[self.b.server as usize].cid_len;
                        if cl > 0 && da.bytes.len() > 1 + cl && db.bytes.len() > 1 + cl {
                            let mut bytes = da.bytes.clone();
                            bytes[1..1 + cl].copy_from_slice(&db.bytes[1..1 + cl]);
                            w.inject(at, da.src, da.dst, bytes, da.ecn, false, a, "cross-splice");
                            w.faults.hit("cross_splice");
                        }
                    }
                }
            }
            // bare suffix: short-header-looking noise ending in 16 chosen bytes
            2 | 3 => {
                let to_server = w.ch.chance("c04.suffix.to_server", 1, 2);
                if let Some(id) = self.pick_genuine(w, Some(to_server)) {
                    let d = w.dgrams[id as usize].clone();
                    let len = 40 + w.ch.range("c04.suffix.len", 0, 200) as usize;
                    let mut bytes = vec![0u8; len];
                    w.ch.bytes("c04.suffix.noise", &mut bytes);
                    bytes[0] = 0x40 | (bytes[0] & 0x3f);
                    if kind == 3 {
                        // the *actual* token of a CID the peer issued: must reset
                        let victim_node = if to_server { self.b.server } else { w.dgrams[id as usize].origin_node };
                        let _ = victim_node;
                        if let Some(tok) = self.real_token(w, &d) {
                            let l = bytes.len();
                            bytes[l - 16..].copy_from_slice(&tok);
                            w.inject(at, d.src, d.dst, bytes, None, false, id, "real-reset-token");
                            w.faults.hit("inject_real_reset_token");
                        }
                    } else {
                        w.inject(at, d.src, d.dst, bytes, None, false, id, "random-suffix");
                        w.faults.hit("inject_random_suffix");
                    }
                }
            }
            // the token of a connection ID the peer issued but the victim has never sent to:
            // knowing it proves nothing about the connection in use, it must not end it
            6 => {
                let to_server = w.ch.chance("c04.unused.to_server", 1, 2);
                if let Some(id) = self.pick_genuine(w, Some(to_server)) {
                    let d = w.dgrams[id as usize].clone();
                    if d.origin_inc != NO_INC {
                        let victim = w.conns[d.origin_inc as usize].peer;
                        let node = w.conns[d.origin_inc as usize].node;
                        let tok = (|| {
                            let key = crate::cfgs::reset_key(*w.reset_key_seeds.get(&node)?);
                            let t = w.tap.lock().unwrap();
                            let mut issued: Vec<Vec<u8>> = Vec::new();
                            for p in t.pkts.iter().filter(|p| p.enc && p.inc == d.origin_inc) {
                                for f in wire::frames(&p.payload).0 {
                                    if let Frame::NewConnectionId { cid, .. } = f {
                                        issued.push(cid);
                                    }
                                }
                            }
                            let used: BTreeSet<Vec<u8>> = t.pkts.iter().filter(|p| p.enc && p.inc == victim).filter_map(|p| wire::plain_header(&p.header).ok().map(|h| h.dcid)).collect();
                            let cid = issued.into_iter().rev().find(|c| !used.contains(c))?;
                            let mut sig = vec![0u8; key.signature_len()];
                            key.sign(&cid, &mut sig);
                            let mut out = [0u8; 16];
                            out.copy_from_slice(&sig[..16]);
                            Some(out)
                        })();
                        if let (Some(tok), true) = (tok, victim != NO_INC) {
                            let len = 40 + w.ch.range("c04.unused.len", 0, 200) as usize;
                            let mut bytes = vec![0u8; len];
                            w.ch.bytes("c04.unused.noise", &mut bytes);
                            bytes[0] = 0x40 | (bytes[0] & 0x3f);
                            let l = bytes.len();
                            bytes[l - 16..].copy_from_slice(&tok);
                            w.inject(at, d.src, d.dst, bytes, None, false, id, "unused-cid-reset-token");
                            w.faults.hit("inject_unused_cid_reset_token");
                        }
                    }
                }
            }
            // forged Version Negotiation to the client (listing or not listing its version)
            4 => {
                if let Some(id) = self.pick_genuine(w, Some(true)) {
                    let d = w.dgrams[id as usize].clone();
                    if d.bytes[0] & 0x80 != 0 {
                        if let Ok(wire::PublicHeader::Long { dcid, scid, .. }) = wire::public_header(&d.bytes, 0) {
                            let mut bytes = vec![0x80 | (w.ch.choose("c04.vn.first", 128) as u8)];
                            bytes.extend_from_slice(&0u32.to_be_bytes());
                            bytes.push(scid.len() as u8);
                            bytes.extend_from_slice(&scid);
                            bytes.push(dcid.len() as u8);
                            bytes.extend_from_slice(&dcid);
                            let lists_ours = w.ch.chance("c04.vn.lists_ours", 1, 2);
                            bytes.extend_from_slice(&0x0a1a_2a3au32.to_be_bytes());
                            if lists_ours {
                                bytes.extend_from_slice(&1u32.to_be_bytes());
                            }
                            w.inject(at, d.dst, d.src, bytes, None, false, id, if lists_ours { "forged-vn-listing-our-version" } else { "forged-vn" });
                            w.faults.hit(if lists_ours { "inject_vn_listing_ours" } else { "inject_vn" });
                        }
                    }
                }
            }
            // forged Retry (bad tag) to the client, Retry-typed packet to the server
            _ => {
                let to_server = w.ch.chance("c04.retry.to_server", 1, 2);
                if let Some(id) = self.pick_genuine(w, Some(true)) {
                    let d = w.dgrams[id as usize].clone();
                    if let Ok(wire::PublicHeader::Long { dcid, scid, .. }) = wire::public_header(&d.bytes, 0) {
                        let mut bytes = vec![0xf0u8];
                        bytes.extend_from_slice(&1u32.to_be_bytes());
                        let (hd, hs) = if to_server { (dcid.clone(), scid.clone()) } else { (scid.clone(), dcid.clone()) };
                        bytes.push(hd.len() as u8);
                        bytes.extend_from_slice(&hd);
                        bytes.push(hs.len() as u8);
                        bytes.extend_from_slice(&hs);
                        let mut tail = vec![0u8; 24 + 16];
                        w.ch.bytes("c04.retry.noise", &mut tail);
                        bytes.extend_from_slice(&tail);
                        if to_server {
                            w.inject(at, d.src, d.dst, bytes, None, false, id, "retry-typed-packet-to-server");
                            w.faults.hit("inject_retry_to_server");
                        } else {
                            w.inject(at, d.dst, d.src, bytes, None, false, id, "forged-retry-bad-tag");
                            w.faults.hit("inject_retry_bad_tag");
                        }
                    }
                }
            }
        }
    }

    /// the reset token the destination's *peer* endpoint issued for the CID this datagram is
    /// addressed from — i.e. a token the receiver of the forged datagram will honour
    fn real_token(&self, w: &World, d: &crate::world::Dgram) -> Option<[u8; 16]> {
        // receiver = node at d.dst; it honours tokens issued by its peer connection (d.origin_inc's
        // own endpoint). Take the most recent CID the origin connection issued.
        let origin = d.origin_inc;
        if origin == NO_INC {
            return None;
        }
        let node = w.conns[origin as usize].node;
        let key = crate::cfgs::reset_key(*w.reset_key_seeds.get(&node)?);
        let t = w.tap.lock().unwrap();
        let mut last: Option<Vec<u8>> = None;
        for p in t.pkts.iter().filter(|p| p.enc && p.inc == origin) {
            if last.is_none() {
                if let Ok(h) = wire::plain_header(&p.header) {
                    if !h.scid.is_empty() {
                        last = Some(h.scid);
                    }
                }
            }
        }
        let cid = last?;
        let mut sig = vec![0u8; key.signature_len()];
        key.sign(&cid, &mut sig);
        let mut out = [0u8; 16];
        out.copy_from_slice(&sig[..16]);
        Some(out)
    }
}

impl Scenario for C04Scen {
    fn on_incoming(&mut self, w: &mut World, node: u32, incoming: &quinn_proto::Incoming, dgram: u32) -> IncomingAction {
        self.b.on_incoming(w, node, incoming, dgram)
    }
    fn on_accepted(&mut self, w: &mut World, inc: u32, dgram: u32) {
        self.b.on_accepted(w, inc, dgram)
    }
    fn on_event(&mut self, w: &mut World, inc: u32, ev: Event) {
        self.b.on_event(w, inc, ev)
    }
    fn on_wake(&mut self, w: &mut World, tag: u64) {
        if tag >= TAG_INJECT && tag < TAG_INJECT + (1 << 20) {
            self.inject_one(w);
        } else {
            self.b.on_wake(w, tag)
        }
    }
    fn after_step(&mut self, w: &mut World) {
        self.b.after_step(w)
    }
    fn done(&self, w: &World) -> bool {
        // (with connection IDs that expire every few hundred milliseconds something is always in
        // flight: do not wait for silence longer than a few seconds)
        self.b.done(w) && (w.in_flight == 0 || self.b.completed_at.is_some_and(|t| w.now > t + 5_000 * MS))
    }
}

fn run(ch: Chooser, ctx: &RunCtx, mut opts: BasicOpts, kinds: Vec<u8>, n_inject_max: u32) -> RunOut {
    let mut w = World::from_ctx(ch, ctx);
    w.drv.track_frame_rx = true;
    opts.idle_off = true;
    opts.op_kinds = vec![0, 1];
    let b = Basic::build(&mut w, opts);
    let mut sc = C04Scen { b, n_inject: 0, kinds, restart_at: None };
    sc.b.oracles.push(Box::new(AuthOracle::default()));
    let n = w.ch.range("c04.n_inject", 0, n_inject_max as u64) as u32;
    let horizon = (sc.b.fault_end + 1500 * MS) / MS;
    for i in 0..n {
        let at = w.ch.range("c04.inject_at_ms", 0, horizon) * MS + w.ch.range("c04.inject_at_us", 0, 999) * 1000;
        w.wake_at(at, TAG_INJECT + i as u64);
    }
    sc.n_inject = n;
    w.run(&mut sc);
    // injected garbage must not change the outcome: the workload still completes
    if w.violations.is_empty() {
        // a connection that was sent the real reset token is legitimately reset (the oracle has
        // verified the token): forget those losses before the generic end checks
        // (every Reset has been checked by the oracle against the tokens the peer issued; with
        // very short CIDs a stateless reset provoked for a random CID can later match a CID that
        // comes into use, which the statement permits)
        for c in w.conns.iter_mut() {
            c.lost.retain(|r| !matches!(r, ConnectionError::Reset));
        }
        // likewise a fresh client may be ended by a (forged) Version Negotiation packet
        if w.faults.m.contains_key("inject_vn") {
            for c in w.conns.iter_mut() {
                c.lost.retain(|r| !matches!(r, ConnectionError::VersionMismatch));
            }
        }
        super::c02::liveness_end_checks(&mut w, &sc.b);
        if let Some(v) = w.violations.last_mut() {
            if v.kind.starts_with("wedge/") || v.kind.starts_with("no-progress/") {
                v.kind = format!("outcome-changed-by-unauthenticated-input/{}", v.kind);
            }
        }
    }
    let mut o = RunOut::from_world(&mut w);
    o.config = format!("server={:?} client={:?} net={:?} fault_end_ms={} retry={} injections={}", sc.b.server_knobs, sc.b.client_knobs, w.net, sc.b.fault_end / 1_000_000, sc.b.retry_first, sc.n_inject);
    o
}

fn fam_replay(ch: Chooser, ctx: &RunCtx) -> RunOut {
    run(ch, ctx, BasicOpts { allow_corrupt: true, ..Default::default() }, vec![0, 0, 0, 1, 2], 12)
}
fn fam_forge(ch: Chooser, ctx: &RunCtx) -> RunOut {
    run(ch, ctx, BasicOpts { allow_corrupt: false, retry: 400, ..Default::default() }, vec![2, 3, 4, 4, 5, 5, 0], 8)
}
fn fam_multi(ch: Chooser, ctx: &RunCtx) -> RunOut {
    run(ch, ctx, BasicOpts { n_clients: 2, conns_per_client: 1, streams_max: 3, size_max: 10_000, ..Default::default() }, vec![0, 1, 1, 2, 0], 12)
}
/// connection IDs with a lifetime: the CID in use changes through retire_prior_to, and reset
/// tokens of used, unused and retired CIDs are thrown at both peers
fn fam_rotation(ch: Chooser, ctx: &RunCtx) -> RunOut {
    run(ch, ctx, BasicOpts { allow_corrupt: false, retry: 0, cid_lifetime_ms: Some(250), cid_len_choices: vec![8, 8, 4, 20], size_max: 100_000, streams_max: 3, ..Default::default() }, vec![6, 6, 3, 2, 0], 14)
}
fn fam_dup_heavy(ch: Chooser, ctx: &RunCtx) -> RunOut {
    run(ch, ctx, BasicOpts { allow_drop: false, allow_corrupt: false, size_max: 200_000, streams_max: 2, ..Default::default() }, vec![0], 30)
}

pub fn spec() -> PropSpec {
    PropSpec {
        id: "C04",
        families: vec![
            Family { name: "replay-corrupt", f: fam_replay, weight: 30 },
            Family { name: "forged-unauthenticated", f: fam_forge, weight: 30 },
            Family { name: "cross-connection", f: fam_multi, weight: 15 },
            Family { name: "cid-rotation", f: fam_rotation, weight: 15 },
            Family { name: "replay-long-transfer", f: fam_dup_heavy, weight: 10 },
        ],
        quick_worlds: 160_000,
        thorough_worlds: 2_400_000,
        panic_is_violation: false,
        rule: "each world = workload under network faults plus attacker actions (replay of any earlier genuine datagram incl. the connection-creating Initial, corruption, cross-connection CID splicing, 16-byte suffixes random and real, forged Version Negotiation / Retry); non-trivial = a fault or injection fired; distinct = distinct abstract-event signature",
        assumptions: vec!["attacker does not hold packet protection keys (forging with tapped keys belongs to C03/C06)", "reset tokens are recomputed by the harness from the endpoints' seeded reset keys and the CIDs seen in the plaintext ledger"],
        real: super::REAL.to_vec(),
        stub: super::STUB.to_vec(),
    }
}
