//! C09 — datagrams reach the right connection; connections are isolated.
//!
//! Many clients with several connections each talk to one server endpoint; connections are
//! opened, closed and reopened at drawn instants (so that drained handles and slots are reused),
//! connection IDs have a short lifetime (rotation, retirement), clients rebind, and the network
//! loses, duplicates and reorders. Old datagrams of closed connections are replayed later.
//!
//! Oracle:
//!   * routing: a genuine datagram produced by connection X is handed only to X's peer (or to
//!     nobody); a connection never receives a datagram that another pair produced;
//!   * isolation of data: every byte read is checked against the keyed pattern of its own
//!     connection (the workload's data oracle);
//!   * isolation of failure: only connections that were closed on purpose (or whose peer was)
//!     may end; every other connection completes its workload.

use std::collections::BTreeSet;

use quinn_proto::{Side, VarInt};

use crate::app::Workload;
use crate::chooser::Chooser;
use crate::runner::{Family, PropSpec, RunCtx, RunOut};
use crate::scen::{Basic, BasicOpts, Oracle, TAG_USER};
use crate::tap::NO_INC;
use crate::world::{Fate, IncomingAction, Ns, Routed, Scenario, World, MS};

pub struct RouteOracle {
    hd_seen: usize,
    pk_seen: usize,
    /// connection IDs each connection has issued (source CIDs of its long-header packets and
    /// NEW_CONNECTION_ID frames it sealed)
    issued: std::collections::BTreeMap<u32, BTreeSet<Vec<u8>>>,
    /// per endpoint: connection ID -> (connection holding it, sequence number), until retired
    active: std::collections::BTreeMap<u32, std::collections::BTreeMap<Vec<u8>, (u32, u64)>>,
    /// (connection, sequence number) pairs the peer has retired
    retired: BTreeSet<(u32, u64)>,
    pub checked: u64,
    pub stale: u64,
    /// short-ID worlds: a datagram went to a connection that is not its sender's peer and has not
    /// announced the destination ID (yet): (connection, ID, step, message). An endpoint routes by
    /// an ID from the moment it allots it, which is before the connection gets to seal the
    /// NEW_CONNECTION_ID frame; the verdict waits for that frame.
    deferred: Vec<(u32, Vec<u8>, u64, String)>,
}

impl RouteOracle {
    pub fn new() -> Self {
        Self { hd_seen: 0, pk_seen: 0, issued: Default::default(), active: Default::default(), retired: Default::default(), checked: 0, stale: 0, deferred: Vec::new() }
    }
}

impl Oracle for RouteOracle {
    fn after_step(&mut self, w: &mut World, _wl: &Workload) {
        let mut problem: Option<(String, String)> = None;
        // connections that drained release their IDs
        for (_, act) in self.active.iter_mut() {
            act.retain(|_, (o, _)| !w.conns[*o as usize].drained_handled);
        }
        {
            let t = w.tap.lock().unwrap();
            for p in &t.pkts[self.pk_seen..] {
                if p.inc == NO_INC || (p.inc as usize) >= w.conns.len() {
                    continue;
                }
                let node = w.conns[p.inc as usize].node;
                if !p.enc {
                    // RETIRE_CONNECTION_ID accepted: the ID is free again
                    if p.ok {
                        for f in crate::wire::frames(&p.payload).0 {
                            if let crate::wire::Frame::RetireConnectionId { seq } = f {
                                self.active.entry(node).or_default().retain(|_, (o, s)| !(*o == p.inc && *s == seq));
                                self.retired.insert((p.inc, seq));
                            }
                        }
                    }
                    continue;
                }
                let mut fresh: Vec<(Vec<u8>, u64)> = Vec::new();
                if let Ok(h) = crate::wire::plain_header(&p.header) {
                    if !h.scid.is_empty() && p.space != crate::wire::Space::OneRtt && !self.issued.get(&p.inc).is_some_and(|s| s.contains(&h.scid)) {
                        fresh.push((h.scid, 0));
                    }
                }
                for f in crate::wire::frames(&p.payload).0 {
                    if let crate::wire::Frame::NewConnectionId { cid, seq, .. } = f {
                        // (a lost NEW_CONNECTION_ID frame is sent again even when the peer has
                        // retired that sequence number meanwhile: not an issuance)
                        if !self.retired.contains(&(p.inc, seq)) {
                            fresh.push((cid, seq));
                        }
                    }
                }
                for (cid, seq) in fresh {
                    self.issued.entry(p.inc).or_default().insert(cid.clone());
                    let act = self.active.entry(node).or_default();
                    match act.get(&cid) {
                        Some((o, s)) if *o != p.inc && !w.conns[*o as usize].drained_handled => {
                            problem = Some(("connection-id-held-by-two-connections".into(), format!("node{}: inc{} issued connection ID {} (sequence {}) while inc{} still holds it (sequence {}, not retired, not drained)", node, p.inc, crate::util::hex(&cid), seq, o, s)));
                        }
                        Some((o, _)) if *o == p.inc => {}
                        _ => {
                            act.insert(cid, (p.inc, seq));
                        }
                    }
                }
            }
            self.pk_seen = t.pkts.len();
        }
        for h in &w.handled[self.hd_seen..] {
            let d = &w.dgrams[h.dgram as usize];
            // datagrams (and faithful copies of datagrams) that a connection of this world produced
            let origin = if d.parent != u32::MAX && (d.parent as usize) < w.dgrams.len() { w.dgrams[d.parent as usize].origin_inc } else { d.origin_inc };
            if origin == NO_INC || (origin as usize) >= w.conns.len() || d.note == "corrupt" {
                continue;
            }
            if let Routed::Conn(to) = h.routed {
                self.checked += 1;
                let expect = w.conns[origin as usize].peer;
                // with zero-length connection IDs the owner of the address tuple is the addressee
                let tuple_owner = w.nodes[h.node as usize].cid_len == 0 && w.conns[to as usize].conn.remote_address() == d.src;
                // with one- or two-byte IDs a retired ID is soon issued again to another
                // connection of the endpoint, and a delayed datagram then belongs to the new
                // owner: there the statement's own wording is the test — the connection that
                // issued the destination connection ID
                let cid_len = w.nodes[h.node as usize].cid_len;
                let short_ids = cid_len > 0 && cid_len < 4 && d.bytes.len() > cid_len;
                let dcid: Vec<u8> = if !short_ids {
                    Vec::new()
                } else if d.bytes[0] & 0x80 != 0 {
                    match crate::wire::public_header(&d.bytes, cid_len) {
                        Ok(crate::wire::PublicHeader::Long { dcid, .. }) => dcid,
                        _ => Vec::new(),
                    }
                } else {
                    d.bytes[1..1 + cid_len].to_vec()
                };
                let reissued = short_ids && self.issued.get(&to).is_some_and(|s| s.contains(&dcid));
                let ok = tuple_owner
                    || reissued
                    || to == expect
                    // the pairing of a server connection is learnt at accept; an Initial that is
                    // retransmitted before that still belongs to the same pair
                    || (expect == NO_INC && w.conns[to as usize].peer == origin)
                    || w.conns[to as usize].peer == origin;
                if !ok && short_ids && !dcid.is_empty() {
                    let msg = format!("datagram#{} produced by inc{} (peer inc{}) was handed to inc{} (peer inc{}) on node{}, which has not announced connection ID {} since", h.dgram, origin, expect as i64, to, w.conns[to as usize].peer as i64, h.node, crate::util::hex(&dcid));
                    self.deferred.push((to, dcid, w.step, msg));
                    w.probes.hit("routing_verdict_deferred_until_id_is_announced");
                    continue;
                }
                if !ok {
                    problem = Some(("datagram-routed-to-foreign-connection".into(), format!("datagram#{} produced by inc{} (peer inc{}) was handed to inc{} (peer inc{}) on node{}", h.dgram, origin, expect as i64, to, w.conns[to as usize].peer as i64, h.node)));
                    break;
                }
                if w.conns[to as usize].drained_handled {
                    problem = Some(("datagram-routed-to-drained-connection".into(), format!("datagram#{} was handed to inc{} after that connection had drained", h.dgram, to)));
                    break;
                }
            } else if matches!(h.routed, Routed::None | Routed::Response(_)) {
                self.stale += 1;
            }
        }
        self.hd_seen = w.handled.len();
        // deferred verdicts: settled by the announcement, void once the connection is closed (it
        // will never announce anything), due after 5000 further steps otherwise
        let step = w.step;
        let issued = &self.issued;
        let mut due = None;
        self.deferred.retain(|(to, dcid, at, msg)| {
            if issued.get(to).is_some_and(|s| s.contains(dcid)) {
                return false;
            }
            let c = &w.conns[*to as usize];
            if c.conn.is_closed() || c.drained_handled || !c.lost.is_empty() || c.closed_locally_at.is_some() {
                return false;
            }
            if step > *at + 5000 {
                due = Some(msg.clone());
                return false;
            }
            true
        });
        if let (Some(msg), None) = (due, &problem) {
            problem = Some(("datagram-routed-to-foreign-connection".into(), msg));
        }
        if let Some((k, d)) = problem {
            w.violate(k, d);
        }
    }
}

const TAG_ACT: u64 = TAG_USER + 2600;

#[derive(Clone, Debug)]
enum Act {
    Close { pick: u32, by_client: bool },
    Connect { client: u32 },
    ReplayOld { pick: u32 },
}

pub struct IsoScen {
    pub b: Basic,
    acts: Vec<(Ns, Act)>,
    /// client incarnations of pairs that were closed on purpose
    pub closed_keys: BTreeSet<u32>,
}

impl Scenario for IsoScen {
    fn on_incoming(&mut self, w: &mut World, node: u32, incoming: &quinn_proto::Incoming, dgram: u32) -> IncomingAction {
        self.b.on_incoming(w, node, incoming, dgram)
    }
    fn on_accepted(&mut self, w: &mut World, inc: u32, dgram: u32) {
        if w.dgrams[dgram as usize].note == "replay-old" {
            // a replayed Initial of a finished connection creates a server connection nobody answers
            w.probes.hit("replayed_initial_accepted");
            return;
        }
        // a late copy of an Initial of a pair that was closed on purpose meanwhile gives rise to a
        // server connection nobody will ever complete (and which the client's packets for its
        // predecessor may confuse): it has no application and nothing is expected of it
        let origin = w.dgrams[dgram as usize].origin_inc;
        if self.closed_keys.contains(&origin) {
            w.probes.hit("zombie_connection_for_closed_pair");
            return;
        }
        self.b.on_accepted(w, inc, dgram)
    }
    fn on_event(&mut self, w: &mut World, inc: u32, ev: quinn_proto::Event) {
        self.b.on_event(w, inc, ev)
    }
    fn on_wake(&mut self, w: &mut World, tag: u64) {
        if tag >= TAG_ACT && tag < TAG_ACT + 4096 {
            let a = self.acts[(tag - TAG_ACT) as usize].1.clone();
            match a {
                Act::Close { pick, by_client } => {
                    let live: Vec<u32> = self.b.client_incs.iter().copied().filter(|i| !w.conns[*i as usize].conn.is_closed() && !self.closed_keys.contains(i)).collect();
                    if live.is_empty() {
                        return;
                    }
                    let key = live[pick as usize % live.len()];
                    let target = if by_client { key } else { w.conns[key as usize].peer };
                    if target == NO_INC || w.conns[target as usize].conn.is_closed() {
                        return;
                    }
                    let now = w.instant();
                    w.conn_mut(target).close(now, VarInt::from_u32(40 + key), bytes::Bytes::from_static(b"done"));
                    w.conns[target as usize].closed_locally_at = Some(w.now);
                    self.b.wl.mark_closed(target);
                    self.closed_keys.insert(key);
                    if !by_client && w.conns[key as usize].conn.is_handshaking() {
                        // The client may never learn of it (the close can be lost, and once the
                        // server has forgotten the connection a retransmitted Initial creates a
                        // second one whose packets the client, already bound to the first one's
                        // source CID, must discard): without an idle timeout it then retransmits
                        // for ever. Nothing is expected of that pair any more.
                        self.b.wl.unchecked.insert(key);
                    }
                    w.faults.hit("app_close");
                }
                Act::Connect { client } => {
                    let ci = client as usize % self.b.clients.len();
                    // with zero-length connection IDs the address pair is the only identity: one
                    // connection per client endpoint there
                    let node = self.b.clients[ci];
                    let server = self.b.server;
                    if (w.nodes[node as usize].cid_len == 0 || w.nodes[server as usize].cid_len == 0) && w.conns.iter().any(|c| (c.node == node || (c.node == server && c.conn.remote_address() == w.nodes[node as usize].addr)) && !c.drained_handled) {
                        return;
                    }
                    self.b.start_conn(w, ci);
                    w.faults.hit("late_connect");
                }
                Act::ReplayOld { pick } => {
                    let n = w.dgrams.iter().filter(|d| d.fate == Fate::Delivered && d.genuine && d.note == "" && d.origin_inc != NO_INC).count();
                    if n == 0 {
                        return;
                    }
                    let (id, src, dst, bytes, ecn) = w.dgrams.iter().filter(|d| d.fate == Fate::Delivered && d.genuine && d.note == "" && d.origin_inc != NO_INC).nth(pick as usize % n).map(|d| (d.id, d.src, d.dst, d.bytes.clone(), d.ecn)).unwrap();
                    let at = w.now;
                    w.inject(at, src, dst, bytes, ecn, false, id, "replay-old");
                    w.faults.hit("replay_old");
                }
            }
        } else {
            self.b.on_wake(w, tag);
        }
    }
    fn after_step(&mut self, w: &mut World) {
        self.b.after_step(w)
    }
    fn done(&self, w: &World) -> bool {
        self.b.done(w) && self.acts.iter().all(|(t, _)| *t < w.now)
    }
}

fn run(ch: Chooser, ctx: &RunCtx, opts: BasicOpts, n_acts: u32, allow_connect: bool) -> RunOut {
    run2(ch, ctx, opts, n_acts, allow_connect, true)
}

fn run2(ch: Chooser, ctx: &RunCtx, mut opts: BasicOpts, n_acts: u32, allow_connect: bool, strict: bool) -> RunOut {
    let mut w = World::from_ctx(ch, ctx);
    opts.allow_corrupt = false;
    opts.idle_off = true;
    let b = Basic::build(&mut w, opts);
    let mut acts = Vec::new();
    let n = w.ch.range("c09.n_acts", 0, n_acts as u64);
    for _ in 0..n {
        let at = w.ch.range_log("c09.act_ms", 1, 6000) * MS + w.ch.range("c09.act_us", 0, 999) * 1000;
        // zero-length IDs anywhere: one connection per endpoint pair, no late connects
        // (nor where the client endpoint rebinds: moving before a handshake is confirmed is not
        // something QUIC supports)
        let zero = w.nodes.iter().any(|n| n.cid_len == 0) || !allow_connect;
        let a = match w.ch.weighted("c09.act", &[4, if zero { 0 } else { 4 }, 2]) {
            0 => Act::Close { pick: w.ch.choose("c09.pick", 16), by_client: w.ch.chance("c09.by_client", 1, 2) },
            1 => Act::Connect { client: w.ch.choose("c09.client", 8) },
            _ => Act::ReplayOld { pick: w.ch.choose("c09.replay", 1 << 12) },
        };
        acts.push((at, a));
    }
    for (i, (at, _)) in acts.iter().enumerate() {
        w.wake_at(*at, TAG_ACT + i as u64);
    }
    let mut sc = IsoScen { b, acts, closed_keys: BTreeSet::new() };
    sc.b.oracles.push(Box::new(RouteOracle::new()));
    w.run(&mut sc);
    // isolation of failure (not with one- or two-byte IDs: stateless reset tokens are derived from
    // the ID, so a stray reset for an ID that has since been issued again ends its new holder —
    // the price of such short IDs, not a routing fault)
    if w.violations.is_empty() && strict {
        let mut bad: Option<(String, String)> = None;
        for c in &w.conns {
            if !sc.b.wl.sides.contains_key(&c.inc) {
                continue;
            }
            let key = if c.side == Side::Client { c.inc } else { c.peer };
            for r in &c.lost {
                use quinn_proto::ConnectionError as E;
                let on_purpose = sc.closed_keys.contains(&key);
                let legit = match r {
                    E::LocallyClosed => on_purpose,
                    E::ApplicationClosed(a) => on_purpose && a.error_code == VarInt::from_u32(40 + key),
                    // the close itself was lost and the closer has drained meanwhile
                    E::Reset | E::TimedOut => on_purpose,
                    // closed on purpose before the handshake had completed
                    E::ConnectionClosed(_) => on_purpose && format!("{}", r).contains("during the handshake"),
                    _ => false,
                };
                if !legit {
                    bad = Some(("connection-disturbed-by-another".into(), format!("inc{} ({:?}, pair key inc{}, closed on purpose: {}) ended with: {}", c.inc, c.side, key as i64, on_purpose, r)));
                    break;
                }
            }
            if bad.is_some() {
                break;
            }
        }
        if let Some((k, d)) = bad {
            w.violate(k, d);
        }
    }
    if w.violations.is_empty() && strict && sc.b.completed_at.is_none() && w.hit_limit.is_none() && sc.b.wl.incomplete_reason(&w).is_some() {
        let (k, d) = super::c02::classify(&w, &sc.b);
        if w.queue.is_empty() {
            w.violate(format!("wedge/{}", k), format!("nothing in flight, no timer armed, no event pending, yet: {}", d));
        } else {
            w.violate(format!("no-progress/{}", k), format!("not complete {} after the faults stopped: {}", crate::world::fmt_t(w.now.saturating_sub(sc.b.fault_end)), d));
        }
    }
    let mut o = RunOut::from_world(&mut w);
    o.config = format!("server={:?} client={:?} net={:?} fault_end_ms={} ops={:?} acts={:?}", sc.b.server_knobs, sc.b.client_knobs, w.net, sc.b.fault_end / 1_000_000, sc.b.ops, sc.acts);
    o.stats.insert("connections", w.conns.len() as f64);
    o
}

fn fam_many(ch: Chooser, ctx: &RunCtx) -> RunOut {
    run(ch, ctx, BasicOpts { n_clients: 4, conns_per_client: 3, op_kinds: vec![1, 0], ops_max: 2, streams_max: 3, size_max: 15_000, cid_len_choices: vec![8, 8, 4, 20, 5], ..Default::default() }, 10, true)
}
/// one- and two-byte connection IDs: freshly generated IDs collide with live ones all the time
/// and the endpoint has to draw again (no Retry: a Retry's one-byte source CID may legitimately
/// collide, as quinn documents)
fn fam_short(ch: Chooser, ctx: &RunCtx) -> RunOut {
    run2(ch, ctx, BasicOpts { n_clients: 4, conns_per_client: 3, op_kinds: vec![1, 0], ops_max: 2, streams_max: 3, size_max: 15_000, retry: 0, cid_len_choices: vec![1, 2, 1], ..Default::default() }, 10, true, false)
}
fn fam_rotation(ch: Chooser, ctx: &RunCtx) -> RunOut {
    run(ch, ctx, BasicOpts { n_clients: 3, conns_per_client: 2, op_kinds: vec![1, 0], ops_max: 2, streams_max: 3, size_max: 40_000, cid_lifetime_ms: Some(200), cid_len_choices: vec![8, 4, 20], ..Default::default() }, 8, true)
}
fn fam_zero_len(ch: Chooser, ctx: &RunCtx) -> RunOut {
    // zero-length connection IDs on the clients (one connection per client endpoint: the address
    // tuple is all that identifies it), normal ones on the server
    run(ch, ctx, BasicOpts { n_clients: 4, conns_per_client: 1, op_kinds: vec![1, 0], ops_max: 2, streams_max: 3, size_max: 20_000, cid_len_choices: vec![8, 0, 0, 4], ..Default::default() }, 4, false)
}
fn fam_rebind(ch: Chooser, ctx: &RunCtx) -> RunOut {
    run(ch, ctx, BasicOpts { n_clients: 1, conns_per_client: 1, op_kinds: vec![7, 7, 1], ops_max: 4, streams_max: 4, size_max: 60_000, cid_lifetime_ms: Some(400), cid_len_choices: vec![8, 4, 20], retry: 0, ..Default::default() }, 6, false)
}

pub fn spec() -> PropSpec {
    PropSpec {
        id: "C09",
        families: vec![
            Family { name: "many", f: fam_many, weight: 30 },
            Family { name: "short-cids", f: fam_short, weight: 10 },
            Family { name: "cid-rotation", f: fam_rotation, weight: 25 },
            Family { name: "zero-length-cids", f: fam_zero_len, weight: 15 },
            Family { name: "rebind", f: fam_rebind, weight: 20 },
        ],
        quick_worlds: 20_000,
        thorough_worlds: 600_000,
        panic_is_violation: true,
        rule: "each world = up to 4 client endpoints with up to 3 connections each towards one server endpoint, connections opened, closed (by either side) and reopened at drawn instants so that drained handles and slots are reused, connection IDs of 0, 4, 5, 8 or 20 bytes with lifetimes of 200-400 ms in some families, client rebinding, replays of old datagrams of finished connections, and loss / duplication / reordering; non-trivial = a fault fired or >1 connection; distinct = distinct abstract-event signature",
        assumptions: vec![
            "connection IDs come from a seeded generator implementing quinn's public ConnectionIdGenerator trait (the stock generators draw from the thread RNG, a source of nondeterminism without a seam); HashedConnectionIdGenerator::validate is therefore not exercised",
            "zero-length IDs are only configured where one connection per address pair exists (RFC 9000 §5.1: otherwise the endpoint cannot tell connections apart)",
            "pairing of connections is the harness's knowledge of which connection produced the datagram that created a server connection",
        ],
        real: super::REAL.to_vec(),
        stub: super::STUB.to_vec(),
    }
}
