//! Construction of endpoint / crypto / transport configurations. Every world builds its own
//! rustls configs, session stores, token logs and caches: nothing is shared between worlds.

use std::net::{IpAddr, Ipv4Addr, SocketAddr};
use std::sync::{Arc, Mutex};
use std::time::{Duration, SystemTime};

use quinn_proto::crypto::rustls::{QuicClientConfig, QuicServerConfig};
use quinn_proto::rustls;
use quinn_proto::rustls::pki_types::{CertificateDer, PrivateKeyDer, PrivatePkcs8KeyDer};
use quinn_proto::{
    ClientConfig, ConnectionId, ConnectionIdGenerator, EndpointConfig, ServerConfig, TimeSource,
    TransportConfig, VarInt,
};

use crate::chooser::{Chooser, Rng};
use crate::tap::{Tap, TapClientConfig, TapServerConfig};

pub static ROOT_DER: &[u8] = include_bytes!("../certs/root.der");
pub static LEAF_DER: &[u8] = include_bytes!("../certs/leaf.der");
pub static LEAF_KEY: &[u8] = include_bytes!("../certs/leaf.key.der");
pub static INT1_DER: &[u8] = include_bytes!("../certs/int1.der");
pub static INT2_DER: &[u8] = include_bytes!("../certs/int2.der");
pub static INT3_DER: &[u8] = include_bytes!("../certs/int3.der");
pub static BIG_DER: &[u8] = include_bytes!("../certs/bigleaf.der");
pub static BIG_KEY: &[u8] = include_bytes!("../certs/bigleaf.key.der");

// ------------------------------------------------------------------------------------------
// Deterministic TLS: rustls + ring with every source of randomness (hello randoms, session ids,
// X25519 ephemeral keys) drawn from a per-world PRNG. The cryptography itself is unchanged real
// code; only its entropy is replaced, so that ciphertext bytes — and with them every branch a
// receiver takes on undecryptable or damaged packets — are a pure function of the world's seed.
// ------------------------------------------------------------------------------------------

thread_local! {
    static TLS_RNG: std::cell::RefCell<Rng> = std::cell::RefCell::new(Rng::new(0x715));
}

/// (re)seed the TLS entropy of the world running on this thread
pub fn seed_tls(seed: u64) {
    TLS_RNG.with(|r| *r.borrow_mut() = Rng::new(seed ^ 0x715_5EED));
}

fn tls_fill(buf: &mut [u8]) {
    TLS_RNG.with(|r| {
        let mut r = r.borrow_mut();
        for c in buf.chunks_mut(8) {
            let w = r.next_u64().to_le_bytes();
            c.copy_from_slice(&w[..c.len()]);
        }
    });
}

#[derive(Debug)]
struct DetRandom;

impl rustls::crypto::SecureRandom for DetRandom {
    fn fill(&self, buf: &mut [u8]) -> Result<(), rustls::crypto::GetRandomFailed> {
        tls_fill(buf);
        Ok(())
    }
}

#[derive(Debug)]
struct DetX25519;

struct DetX25519Active {
    priv_key: ring::agreement::EphemeralPrivateKey,
    pub_key: ring::agreement::PublicKey,
}

impl rustls::crypto::SupportedKxGroup for DetX25519 {
    fn start(&self) -> Result<Box<dyn rustls::crypto::ActiveKeyExchange>, rustls::Error> {
        let mut seed = [0u8; 32];
        tls_fill(&mut seed);
        #[allow(deprecated)]
        let rng = ring::test::rand::FixedSliceRandom { bytes: &seed };
        let priv_key = ring::agreement::EphemeralPrivateKey::generate(&ring::agreement::X25519, &rng).map_err(|_| rustls::Error::General("x25519 keygen".into()))?;
        let pub_key = priv_key.compute_public_key().map_err(|_| rustls::Error::General("x25519 pubkey".into()))?;
        Ok(Box::new(DetX25519Active { priv_key, pub_key }))
    }
    fn name(&self) -> rustls::NamedGroup {
        rustls::NamedGroup::X25519
    }
}

impl rustls::crypto::ActiveKeyExchange for DetX25519Active {
    fn complete(self: Box<Self>, peer: &[u8]) -> Result<rustls::crypto::SharedSecret, rustls::Error> {
        let peer_key = ring::agreement::UnparsedPublicKey::new(&ring::agreement::X25519, peer);
        ring::agreement::agree_ephemeral(self.priv_key, &peer_key, |secret| rustls::crypto::SharedSecret::from(secret)).map_err(|_| rustls::Error::PeerMisbehaved(rustls::PeerMisbehaved::InvalidKeyShare))
    }
    fn pub_key(&self) -> &[u8] {
        self.pub_key.as_ref()
    }
    fn group(&self) -> rustls::NamedGroup {
        rustls::NamedGroup::X25519
    }
}

/// rustls reads the wall clock for certificate validity and ticket ages; give it a fixed instant
/// inside the committed certificates' validity so that no real time leaks into a world
#[derive(Debug)]
struct FixedTime;

impl rustls::time_provider::TimeProvider for FixedTime {
    fn current_time(&self) -> Option<rustls::pki_types::UnixTime> {
        Some(rustls::pki_types::UnixTime::since_unix_epoch(Duration::from_secs(1_790_000_000)))
    }
}

static DET_RANDOM: DetRandom = DetRandom;
static DET_X25519: DetX25519 = DetX25519;

pub fn provider() -> Arc<rustls::crypto::CryptoProvider> {
    let mut p = rustls::crypto::ring::default_provider();
    p.secure_random = &DET_RANDOM;
    p.kx_groups = vec![&DET_X25519];
    Arc::new(p)
}

/// rustls server config. `big` selects the 4-certificate chain (server flight > 3 x 1200 bytes).
pub fn rustls_server(big: bool, early_data: bool) -> rustls::ServerConfig {
    let (chain, key): (Vec<CertificateDer<'static>>, &[u8]) = if big {
        (
            vec![
                CertificateDer::from(BIG_DER.to_vec()),
                CertificateDer::from(INT3_DER.to_vec()),
                CertificateDer::from(INT2_DER.to_vec()),
                CertificateDer::from(INT1_DER.to_vec()),
            ],
            BIG_KEY,
        )
    } else {
        (vec![CertificateDer::from(LEAF_DER.to_vec())], LEAF_KEY)
    };
    let key = PrivateKeyDer::Pkcs8(PrivatePkcs8KeyDer::from(key.to_vec()));
    let mut cfg = rustls::ServerConfig::builder_with_details(provider(), Arc::new(FixedTime))
        .with_protocol_versions(&[&rustls::version::TLS13])
        .unwrap()
        .with_no_client_auth()
        .with_single_cert(chain, key)
        .unwrap();
    cfg.max_early_data_size = if early_data { u32::MAX } else { 0 };
    cfg.alpn_protocols = vec![b"sim".to_vec()];
    cfg
}

pub fn rustls_client(early_data: bool) -> rustls::ClientConfig {
    let mut roots = rustls::RootCertStore::empty();
    roots.add(CertificateDer::from(ROOT_DER.to_vec())).unwrap();
    let mut cfg = rustls::ClientConfig::builder_with_details(provider(), Arc::new(FixedTime))
        .with_protocol_versions(&[&rustls::version::TLS13])
        .unwrap()
        .with_root_certificates(roots)
        .with_no_client_auth();
    cfg.enable_early_data = early_data;
    cfg.alpn_protocols = vec![b"sim".to_vec()];
    cfg
}

pub fn tapped_server_crypto(tap: &Tap, node: u32, cfg: rustls::ServerConfig) -> Arc<dyn quinn_proto::crypto::ServerConfig> {
    let real: QuicServerConfig = cfg.try_into().unwrap();
    Arc::new(TapServerConfig { inner: Arc::new(real), tap: tap.clone(), node })
}

pub fn tapped_client_crypto(tap: &Tap, node: u32, cfg: rustls::ClientConfig) -> Arc<dyn quinn_proto::crypto::ClientConfig> {
    let real: QuicClientConfig = cfg.try_into().unwrap();
    Arc::new(TapClientConfig { inner: Arc::new(real), tap: tap.clone(), node })
}

pub fn untapped_server_crypto(cfg: rustls::ServerConfig) -> Arc<dyn quinn_proto::crypto::ServerConfig> {
    let real: QuicServerConfig = cfg.try_into().unwrap();
    Arc::new(real)
}
pub fn untapped_client_crypto(cfg: rustls::ClientConfig) -> Arc<dyn quinn_proto::crypto::ClientConfig> {
    let real: QuicClientConfig = cfg.try_into().unwrap();
    Arc::new(real)
}

/// Seeded CID generator (the deterministic stand-in for quinn's two generators, which read the
/// thread RNG). Any length 0..=20, optional lifetime.
pub struct SeededCidGen {
    rng: Rng,
    len: usize,
    lifetime: Option<Duration>,
}

impl ConnectionIdGenerator for SeededCidGen {
    fn generate_cid(&mut self) -> ConnectionId {
        let mut b = [0u8; 20];
        for c in b.chunks_mut(8) {
            let w = self.rng.next_u64().to_le_bytes();
            c.copy_from_slice(&w[..c.len()]);
        }
        ConnectionId::new(&b[..self.len])
    }
    fn cid_len(&self) -> usize {
        self.len
    }
    fn cid_lifetime(&self) -> Option<Duration> {
        self.lifetime
    }
}

pub struct EpOpts {
    pub seed: u64,
    pub cid_len: usize,
    pub cid_lifetime: Option<Duration>,
    pub reset_key_seed: u64,
    pub min_reset_interval: Duration,
    pub max_udp_payload: u16,
    pub grease: bool,
}

impl Default for EpOpts {
    fn default() -> Self {
        Self { seed: 1, cid_len: 8, cid_lifetime: None, reset_key_seed: 7, min_reset_interval: Duration::from_millis(20), max_udp_payload: 1472, grease: true }
    }
}

pub fn reset_key(seed: u64) -> Arc<dyn quinn_proto::crypto::HmacKey> {
    let mut k = [0u8; 64];
    let mut r = Rng::new(seed ^ 0x5E7);
    for c in k.chunks_mut(8) {
        c.copy_from_slice(&r.next_u64().to_le_bytes());
    }
    Arc::new(ring::hmac::Key::new(ring::hmac::HMAC_SHA256, &k))
}

pub fn token_key(seed: u64) -> Arc<dyn quinn_proto::crypto::HandshakeTokenKey> {
    let mut k = [0u8; 64];
    let mut r = Rng::new(seed ^ 0x70CE);
    for c in k.chunks_mut(8) {
        c.copy_from_slice(&r.next_u64().to_le_bytes());
    }
    Arc::new(ring::hkdf::Salt::new(ring::hkdf::HKDF_SHA256, &[]).extract(&k))
}

pub fn endpoint_config(o: &EpOpts) -> EndpointConfig {
    let mut cfg = EndpointConfig::new(reset_key(o.reset_key_seed));
    let mut seed = [0u8; 32];
    let mut r = Rng::new(o.seed);
    for c in seed.chunks_mut(8) {
        c.copy_from_slice(&r.next_u64().to_le_bytes());
    }
    cfg.rng_seed(Some(seed));
    let (len, lifetime, gseed) = (o.cid_len, o.cid_lifetime, o.seed ^ 0xC1D);
    cfg.cid_generator(Arc::new(move || Box::new(SeededCidGen { rng: Rng::new(gseed), len, lifetime })));
    cfg.min_reset_interval(o.min_reset_interval);
    cfg.max_udp_payload_size(o.max_udp_payload).unwrap();
    cfg.grease_quic_bit(o.grease);
    cfg
}

/// Simulated wall clock for token issue/expiry
pub struct SimTime {
    pub base: SystemTime,
    pub offset_ns: Mutex<u64>,
}

impl SimTime {
    pub fn new() -> Arc<Self> {
        // fixed, far from any boundary; identical in every process
        Arc::new(Self { base: SystemTime::UNIX_EPOCH + Duration::from_secs(1_900_000_000), offset_ns: Mutex::new(0) })
    }
    pub fn set(&self, ns: u64) {
        *self.offset_ns.lock().unwrap() = ns;
    }
}

impl TimeSource for SimTime {
    fn now(&self) -> SystemTime {
        self.base + Duration::from_nanos(*self.offset_ns.lock().unwrap())
    }
}

pub fn server_config(crypto: Arc<dyn quinn_proto::crypto::ServerConfig>, token_seed: u64, transport: Arc<TransportConfig>, clock: Arc<SimTime>) -> ServerConfig {
    let mut s = ServerConfig::new(crypto, token_key(token_seed));
    s.transport_config(transport);
    s.time_source(clock);
    s
}

pub fn client_config(crypto: Arc<dyn quinn_proto::crypto::ClientConfig>, transport: Arc<TransportConfig>, dcid_seed: u64) -> ClientConfig {
    let mut c = ClientConfig::new(crypto);
    c.transport_config(transport);
    // (domain-separated from the CID generators: equal seeds once made a client draw the very CID a
    // server had just issued)
    let ctr = Mutex::new(Rng::new(crate::chooser::mix(&[dcid_seed, 0xD1D, 0x0C11_E275])));
    c.initial_dst_cid_provider(Arc::new(move || {
        let mut b = [0u8; 8];
        b.copy_from_slice(&ctr.lock().unwrap().next_u64().to_le_bytes());
        ConnectionId::new(&b)
    }));
    c
}

pub fn addr(node: u32, port_delta: u16) -> SocketAddr {
    SocketAddr::new(IpAddr::V4(Ipv4Addr::new(10, 0, (node / 200) as u8, (node % 200) as u8 + 1)), 4000 + port_delta)
}

/// Transport knobs drawn per world (swarm style). Index 0 of every choice is quinn's default.
#[derive(Clone, Debug)]
pub struct TKnobs {
    pub stream_window: u64,
    pub conn_window: u64,
    pub send_window: u64,
    pub max_bidi: u64,
    pub max_uni: u64,
    pub initial_mtu: u16,
    pub min_mtu: u16,
    pub mtud: bool,
    pub mtud_upper: u16,
    pub ack_freq: bool,
    pub fairness: bool,
    pub gso: bool,
    pub cc: u8,
    pub pad_to_mtu: bool,
    pub idle_ms: Option<u64>,
    pub keep_alive_ms: Option<u64>,
    pub dgram_recv_buf: Option<usize>,
    pub dgram_send_buf: usize,
    pub pacing_cap: Option<u64>,
    pub initial_rtt_ms: u64,
    pub packet_threshold: u32,
    pub time_threshold_x8: u32,
    pub persistent_congestion_threshold: u32,
    pub crypto_buffer: usize,
    /// harness congestion controller: Some((base window, oscillate))
    pub harness_cc: Option<(u64, bool)>,
    /// AckFrequencyConfig other than the default (when `ack_freq`): (ack-eliciting threshold,
    /// requested max_ack_delay in ms, reordering threshold)
    pub ack_freq_params: Option<(u64, Option<u64>, u64)>,
    /// MtuDiscoveryConfig other than the default: (interval ms, black-hole cooldown ms, minimum
    /// change)
    pub mtud_params: Option<(u64, u64, u16)>,
    pub allow_spin: bool,
}

impl Default for TKnobs {
    fn default() -> Self {
        Self {
            stream_window: 1_250_000,
            conn_window: (1u64 << 62) - 1,
            send_window: 10_000_000,
            max_bidi: 100,
            max_uni: 100,
            initial_mtu: 1200,
            min_mtu: 1200,
            mtud: true,
            mtud_upper: 1452,
            ack_freq: false,
            fairness: true,
            gso: true,
            cc: 0,
            pad_to_mtu: false,
            idle_ms: Some(30_000),
            keep_alive_ms: None,
            dgram_recv_buf: Some(1_250_000),
            dgram_send_buf: 1024 * 1024,
            pacing_cap: None,
            initial_rtt_ms: 333,
            packet_threshold: 3,
            time_threshold_x8: 9,
            persistent_congestion_threshold: 3,
            crypto_buffer: 16 * 1024,
            harness_cc: None,
            ack_freq_params: None,
            mtud_params: None,
            allow_spin: true,
        }
    }
}

impl TKnobs {
    pub fn draw(ch: &mut Chooser) -> Self {
        let mut k = Self::default();
        let small = [1_250_000u64, 1, 2, 7, 63, 64, 100, 1000, 1200, 4096, 16_383, 16_384, 16_385, 65_536, 300_000];
        k.stream_window = *ch.pick("knob.stream_window", &small);
        k.conn_window = *ch.pick("knob.conn_window", &[(1u64 << 62) - 1, 1, 3, 64, 500, 1200, 5000, 16_384, 70_000, 1_000_000]);
        k.send_window = *ch.pick("knob.send_window", &[10_000_000u64, 1, 100, 1200, 5000, 20_000, 200_000]);
        k.max_bidi = *ch.pick("knob.max_bidi", &[100u64, 0, 1, 2, 3, 8, 64]);
        k.max_uni = *ch.pick("knob.max_uni", &[100u64, 0, 1, 2, 3, 8, 64]);
        k.initial_mtu = *ch.pick("knob.initial_mtu", &[1200u16, 1200, 1280, 1400, 1452, 1500]);
        k.mtud = !ch.chance("knob.mtud_off", 1, 4);
        k.mtud_upper = *ch.pick("knob.mtud_upper", &[1452u16, 1300, 1452, 1500, 4000, 9000]);
        k.ack_freq = ch.chance("knob.ack_freq", 1, 3);
        k.fairness = !ch.chance("knob.unfair", 1, 4);
        k.gso = !ch.chance("knob.gso_off", 1, 4);
        k.cc = ch.choose("knob.cc", 3) as u8;
        k.pad_to_mtu = ch.chance("knob.pad", 1, 8);
        k.initial_rtt_ms = *ch.pick("knob.initial_rtt", &[333u64, 10, 50, 100, 1000]);
        k.packet_threshold = *ch.pick("knob.pkt_thresh", &[3u32, 3, 4, 10]);
        k.pacing_cap = *ch.pick("knob.pacing", &[None, None, None, Some(50_000u64), Some(1_000_000)]);
        if ch.chance("knob.ack_freq_params", 1, 2) {
            k.ack_freq_params = Some((*ch.pick("knob.ackf.threshold", &[1u64, 0, 2, 10, 100]), *ch.pick("knob.ackf.max_ack_delay", &[None, Some(5u64), Some(100), Some(1)]), *ch.pick("knob.ackf.reorder", &[2u64, 0, 1, 5])));
        }
        if ch.chance("knob.mtud_params", 1, 3) {
            k.mtud_params = Some((*ch.pick("knob.mtud.interval_ms", &[600_000u64, 50, 1000, 10_000]), *ch.pick("knob.mtud.cooldown_ms", &[60_000u64, 100, 2000]), *ch.pick("knob.mtud.min_change", &[20u16, 1, 5, 200])));
        }
        k.allow_spin = !ch.chance("knob.no_spin", 1, 4);
        k.sane();
        k
    }

    /// A rate cap must let a full-sized datagram through within a fraction of a probe timeout.
    /// (50 kB/s with a 64 kB MTU and pad_to_mtu spaces packets 1.3 s apart: a PATH_RESPONSE then
    /// always arrives after the peer's three-PTO validation timeout, the peer starts over with a
    /// new challenge on the next packet, and the pair livelocks — an artefact of the knob
    /// combination, recorded in DESIGN.md, not something the properties speak of.)
    pub fn sane(&mut self) {
        if let Some(cap) = self.pacing_cap {
            let max_mtu = (cap / 20).clamp(1500, 65_527) as u16;
            self.mtud_upper = self.mtud_upper.min(max_mtu);
            self.initial_mtu = self.initial_mtu.min(max_mtu);
        }
    }

    pub fn build(&self) -> TransportConfig {
        let mut t = TransportConfig::default();
        t.stream_receive_window(VarInt::from_u64(self.stream_window).unwrap());
        t.receive_window(VarInt::from_u64(self.conn_window).unwrap());
        t.send_window(self.send_window);
        t.max_concurrent_bidi_streams(VarInt::from_u64(self.max_bidi).unwrap());
        t.max_concurrent_uni_streams(VarInt::from_u64(self.max_uni).unwrap());
        t.initial_mtu(self.initial_mtu.max(self.min_mtu));
        t.min_mtu(self.min_mtu);
        if self.mtud {
            let mut m = quinn_proto::MtuDiscoveryConfig::default();
            m.upper_bound(self.mtud_upper.max(1200));
            if let Some((interval, cooldown, min_change)) = self.mtud_params {
                m.interval(Duration::from_millis(interval)).black_hole_cooldown(Duration::from_millis(cooldown)).minimum_change(min_change);
            }
            t.mtu_discovery_config(Some(m));
        } else {
            t.mtu_discovery_config(None);
        }
        if self.ack_freq {
            let mut a = quinn_proto::AckFrequencyConfig::default();
            if let Some((thr, mad, reorder)) = self.ack_freq_params {
                a.ack_eliciting_threshold(VarInt::from_u64(thr).unwrap()).max_ack_delay(mad.map(Duration::from_millis)).reordering_threshold(VarInt::from_u64(reorder).unwrap());
            }
            t.ack_frequency_config(Some(a));
        }
        t.send_fairness(self.fairness);
        t.enable_segmentation_offload(self.gso);
        if let Some((base, osc)) = self.harness_cc {
            t.congestion_controller_factory(Arc::new(HarnessCcFactory { base, oscillate: osc, log: None }));
        } else {
            self.build_cc(&mut t);
        }
        t.pad_to_mtu(self.pad_to_mtu);
        self.build_rest(&mut t);
        t
    }

    fn build_cc(&self, t: &mut TransportConfig) {
        match self.cc {
            1 => {
                t.congestion_controller_factory(Arc::new(quinn_proto::congestion::NewRenoConfig::default()));
            }
            2 => {
                t.congestion_controller_factory(Arc::new(quinn_proto::congestion::BbrConfig::default()));
            }
            _ => {}
        }
    }

    fn build_rest(&self, t: &mut TransportConfig) {
        t.max_idle_timeout(self.idle_ms.map(|ms| VarInt::from_u64(ms).unwrap().into()));
        t.keep_alive_interval(self.keep_alive_ms.map(Duration::from_millis));
        t.datagram_receive_buffer_size(self.dgram_recv_buf);
        t.datagram_send_buffer_size(self.dgram_send_buf);
        t.max_outgoing_bytes_per_second(self.pacing_cap);
        t.initial_rtt(Duration::from_millis(self.initial_rtt_ms));
        t.packet_threshold(self.packet_threshold);
        t.time_threshold(self.time_threshold_x8 as f32 / 8.0);
        t.persistent_congestion_threshold(self.persistent_congestion_threshold);
        t.crypto_buffer_size(self.crypto_buffer);
        t.allow_spin(self.allow_spin);
    }
}

// ------------------------------------------------------------------------------------------
// Harness congestion controller (public `congestion::Controller` trait): dictates window()
// and records every callback.
// ------------------------------------------------------------------------------------------

#[derive(Clone, Debug)]
pub enum CcCall {
    Sent { bytes: u64, pn: u64 },
    Ack { bytes: u64, app_limited: bool },
    EndAcks { in_flight: u64, app_limited: bool },
    Congestion { persistent: bool, ecn: bool, lost_bytes: u64 },
    Spurious,
    Mtu(u16),
}

#[derive(Default, Debug)]
pub struct CcLog {
    pub calls: Vec<CcCall>,
}

pub struct HarnessCcFactory {
    pub base: u64,
    pub oscillate: bool,
    pub log: Option<Arc<Mutex<CcLog>>>,
}

impl quinn_proto::congestion::ControllerFactory for HarnessCcFactory {
    fn build(self: Arc<Self>, _now: std::time::Instant, current_mtu: u16) -> Box<dyn quinn_proto::congestion::Controller> {
        Box::new(HarnessCc { base: self.base, oscillate: self.oscillate, mtu: current_mtu, n: 0, log: self.log.clone() })
    }
}

#[derive(Clone)]
pub struct HarnessCc {
    base: u64,
    oscillate: bool,
    mtu: u16,
    n: u64,
    log: Option<Arc<Mutex<CcLog>>>,
}

impl HarnessCc {
    fn rec(&mut self, c: CcCall) {
        // the window may only change between poll_transmit calls, never inside one: sending
        // (on_sent) leaves it alone
        if !matches!(c, CcCall::Sent { .. }) {
            self.n += 1;
        }
        if let Some(l) = &self.log {
            l.lock().unwrap().calls.push(c);
        }
    }
}

impl quinn_proto::congestion::Controller for HarnessCc {
    fn on_sent(&mut self, _now: std::time::Instant, bytes: u64, pn: u64) {
        self.rec(CcCall::Sent { bytes, pn });
    }
    fn on_ack(&mut self, _now: std::time::Instant, _sent: std::time::Instant, bytes: u64, app_limited: bool, _rtt: &quinn_proto::RttEstimator) {
        self.rec(CcCall::Ack { bytes, app_limited });
    }
    fn on_end_acks(&mut self, _now: std::time::Instant, in_flight: u64, app_limited: bool, _l: Option<u64>) {
        self.rec(CcCall::EndAcks { in_flight, app_limited });
    }
    fn on_congestion_event(&mut self, _now: std::time::Instant, _sent: std::time::Instant, persistent: bool, ecn: bool, lost_bytes: u64) {
        self.rec(CcCall::Congestion { persistent, ecn, lost_bytes });
    }
    fn on_spurious_congestion_event(&mut self) {
        self.rec(CcCall::Spurious);
    }
    fn on_mtu_update(&mut self, new_mtu: u16) {
        self.mtu = new_mtu;
        self.rec(CcCall::Mtu(new_mtu));
    }
    fn window(&self) -> u64 {
        // never below two datagrams of the current MTU (what the property demands of the
        // built-in controllers); oscillation is driven by the number of callbacks seen so far
        let floor = 2 * self.mtu as u64;
        let w = if self.oscillate {
            match (self.n / 7) % 4 {
                0 => self.base,
                1 => self.base * 8,
                2 => floor,
                _ => self.base * 2,
            }
        } else {
            self.base
        };
        w.max(floor)
    }
    fn clone_box(&self) -> Box<dyn quinn_proto::congestion::Controller> {
        Box::new(self.clone())
    }
    fn initial_window(&self) -> u64 {
        self.base.max(2 * self.mtu as u64)
    }
    fn into_any(self: Box<Self>) -> Box<dyn std::any::Any> {
        self
    }
}
