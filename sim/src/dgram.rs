//! Application model for unreliable datagrams, with the C16 oracle built in.
//!
//! Every datagram's bytes are a keyed pattern of (connection, sender, sequence number), so a
//! received datagram identifies the one that was sent (sizes below 8 bytes are matched as a
//! multiset). The sender side mirrors quinn's outgoing queue in a small reference model (FIFO,
//! byte bound, oldest-first eviction) and compares `send()` results, `max_size()` and
//! `send_buffer_space()` with it; the receiver side optionally mirrors the incoming buffer from the
//! tap's acceptance ledger (FIFO with oldest-first overflow) and compares every `recv()` with it.

use std::collections::{BTreeMap, VecDeque};

use bytes::Bytes;
use quinn_proto::{Event, SendDatagramError, Side};

use crate::cfgs::TKnobs;
use crate::chooser::mix;
use crate::tap::NO_INC;
use crate::util::{fnv, pat_fill};
use crate::wire::{self, Frame, Space};
use crate::world::{Ns, World, MS};

pub const TAG_DGRAM: u64 = 5 << 40;
const KEY: u64 = 0xD6_7A11;

#[derive(Clone, Debug)]
pub struct DgCfg {
    /// datagrams a side tries to send in total (drawn up to this)
    pub max_per_side: u32,
    /// x/1000: the receiving application leaves datagrams in the buffer and comes back later
    pub slow_reader: u32,
    /// compare every recv() with a FIFO reference fed from the acceptance ledger (only sound
    /// without duplication / reordering)
    pub strict_fifo: bool,
    pub burst_max: u32,
    /// further bursts happen up to this late
    pub horizon_ms: u64,
    /// mostly datagrams of (nearly) the maximum size
    pub big: bool,
}

impl Default for DgCfg {
    fn default() -> Self {
        Self { max_per_side: 40, slow_reader: 200, strict_fifo: false, burst_max: 12, horizon_ms: 3000, big: false }
    }
}

#[derive(Clone, Debug)]
struct Plan {
    /// 0: 0 bytes, 1: 1 byte, 2: small, 3: medium, 4: max-1, 5: max, 6: max+1, 7: far too large,
    /// 8: around the send buffer size
    size_sel: u8,
    fine: u64,
    drop: bool,
}

#[derive(Default)]
pub struct DgSide {
    pub inc: u32,
    pub is_client: bool,
    pub connected: bool,
    pub gone: bool,
    plans: Vec<Plan>,
    pos: usize,
    next_seq: u64,
    /// a datagram that was refused with Blocked and waits for DatagramsUnblocked
    blocked: Option<(Vec<u8>, bool)>,
    /// content id -> how many datagrams with that content send() accepted
    pub accepted: BTreeMap<u64, u32>,
    pub accepted_n: u64,
    /// reference model of the outgoing queue: (content id, len)
    out_model: VecDeque<(u64, usize)>,
    model_dirty: bool,
    /// content id -> how many the application received
    pub received: BTreeMap<u64, u32>,
    pub received_n: u64,
    /// reference model of the incoming buffer (strict_fifo): (content id, len)
    in_model: VecDeque<(u64, usize)>,
    in_bytes: usize,
    seen_pns: std::collections::BTreeSet<u64>,
    leftover: bool,
    pub unblocked_events: u32,
    pub blocked_results: u32,
    bursts_left: u32,
}

pub struct DgramLoad {
    pub cfg: DgCfg,
    pub server: TKnobs,
    pub client: TKnobs,
    pub sides: BTreeMap<u32, DgSide>,
    pk_seen: usize,
}

fn cid(bytes: &[u8]) -> u64 {
    mix(&[fnv(bytes), bytes.len() as u64])
}

impl DgramLoad {
    pub fn new(cfg: DgCfg, server: TKnobs, client: TKnobs) -> Self {
        Self { cfg, server, client, sides: BTreeMap::new(), pk_seen: 0 }
    }

    fn knobs(&self, is_client: bool) -> &TKnobs {
        if is_client {
            &self.client
        } else {
            &self.server
        }
    }

    pub fn add_side(&mut self, w: &mut World, inc: u32, is_client: bool) {
        let n = w.ch.range("dg.n", 0, self.cfg.max_per_side as u64) as usize;
        let mut plans = Vec::with_capacity(n);
        for _ in 0..n {
            plans.push(Plan { size_sel: if self.cfg.big { *w.ch.pick("dg.size_sel_big", &[5u8, 5, 4, 3, 5, 2]) } else { *w.ch.pick("dg.size_sel", &[3u8, 0, 1, 2, 4, 5, 6, 7, 8, 3, 5]) }, fine: w.ch.range("dg.fine", 0, 1 << 16), drop: w.ch.chance("dg.drop", 1, 3) });
        }
        let bursts = 1 + w.ch.choose("dg.bursts", 4);
        self.sides.insert(inc, DgSide { inc, is_client, plans, bursts_left: bursts, ..Default::default() });
    }

    pub fn idle(&self) -> bool {
        self.sides.values().all(|s| s.gone || (s.connected && s.pos >= s.plans.len() && s.blocked.is_none() && !s.leftover))
    }

    /// nothing left to issue and nothing queued inside the connections either
    pub fn drained(&self, w: &mut World) -> bool {
        if !self.idle() {
            return false;
        }
        for s in self.sides.values() {
            if s.gone || w.conns[s.inc as usize].conn.is_closed() {
                continue;
            }
            let buf = self.knobs(s.is_client).dgram_send_buf;
            if w.conns[s.inc as usize].conn.datagrams().send_buffer_space() != buf {
                return false;
            }
        }
        true
    }

    fn conn_key(&self, w: &World, inc: u32) -> u32 {
        if self.sides[&inc].is_client {
            inc
        } else {
            w.conns[inc as usize].peer
        }
    }

    pub fn on_event(&mut self, w: &mut World, inc: u32, ev: &Event) {
        if !self.sides.contains_key(&inc) {
            return;
        }
        match ev {
            Event::Connected => {
                self.sides.get_mut(&inc).unwrap().connected = true;
                // (a server drops 1-RTT packets that arrive before its handshake completes; the
                // strict receive-buffer reference cannot tell, so there the client waits)
                if !(self.cfg.strict_fifo && self.sides[&inc].is_client) {
                    self.burst(w, inc, false);
                }
            }
            Event::HandshakeConfirmed => {
                if self.cfg.strict_fifo && self.sides[&inc].is_client {
                    self.burst(w, inc, false);
                }
            }
            Event::ConnectionLost { .. } => {
                self.sides.get_mut(&inc).unwrap().gone = true;
            }
            Event::DatagramReceived => self.drain(w, inc, true),
            Event::DatagramsUnblocked => {
                self.sync_sealed(w);
                let s = self.sides.get_mut(&inc).unwrap();
                s.unblocked_events += 1;
                if s.blocked.is_none() {
                    w.violate("unblocked-without-blocked", format!("inc{} DatagramsUnblocked emitted although no send() was refused with Blocked since the last one", inc));
                    return;
                }
                w.probes.hit("dgram_unblocked");
                self.burst(w, inc, true);
            }
            _ => {}
        }
    }

    pub fn mark_closed(&mut self, inc: u32) {
        if let Some(s) = self.sides.get_mut(&inc) {
            s.gone = true;
        }
    }

    pub fn on_wake(&mut self, w: &mut World, arg: u64) {
        let inc = (arg >> 8) as u32;
        let kind = arg & 0xff;
        if !self.sides.contains_key(&inc) || self.sides[&inc].gone || w.conns[inc as usize].conn.is_closed() {
            return;
        }
        if kind == 0 {
            // (a blocked sender waits for DatagramsUnblocked, it does not poll)
            if self.sides[&inc].blocked.is_none() {
                self.burst(w, inc, false);
            }
        } else {
            self.drain(w, inc, false);
        }
    }

    /// pop sealed DATAGRAM frames off the senders' queue models; feed the receivers' models
    fn sync_sealed(&mut self, w: &mut World) {
        let tap = w.tap.clone();
        let t = tap.lock().unwrap();
        let mut problem: Option<(String, String)> = None;
        for p in &t.pkts[self.pk_seen..] {
            if p.inc == NO_INC || !matches!(p.space, Space::OneRtt | Space::ZeroRtt) || !self.sides.contains_key(&p.inc) {
                continue;
            }
            if !p.enc && !p.ok {
                continue;
            }
            let (frames, _) = wire::frames(&p.payload);
            let my_recv_window = self.knobs(self.sides[&p.inc].is_client).dgram_recv_buf;
            let peer_is_client = !self.sides[&p.inc].is_client;
            let peer_limit = self.knobs(peer_is_client).dgram_recv_buf.map(|x| x.min(65_535));
            let s = self.sides.get_mut(&p.inc).unwrap();
            let fresh = p.enc || s.seen_pns.insert(p.pn);
            for f in &frames {
                let Frame::Datagram { len, data_at } = f else { continue };
                let data = &p.payload[*data_at..*data_at + *len];
                let id = cid(data);
                if p.enc {
                    // frame size on the wire: type + length varint + data (quinn always writes a length)
                    let frame_len = 1 + wire::varint_len(*len as u64) + *len;
                    match peer_limit {
                        None => {
                            problem = Some(("datagram-frame-to-peer-without-support".into(), format!("inc{} sealed a DATAGRAM frame although the peer does not advertise max_datagram_frame_size", p.inc)));
                        }
                        Some(l) if frame_len > l => {
                            problem = Some(("datagram-frame-exceeds-peer-limit".into(), format!("inc{} sealed a DATAGRAM frame of {} bytes ({} payload) but the peer's max_datagram_frame_size is {}", p.inc, frame_len, len, l)));
                        }
                        _ => {}
                    }
                    if s.accepted.get(&id).copied().unwrap_or(0) == 0 {
                        problem = Some(("sealed-datagram-never-accepted".into(), format!("inc{} sealed a {}-byte DATAGRAM frame whose content send() never accepted", p.inc, len)));
                    }
                    match s.out_model.iter().position(|(i, _)| *i == id) {
                        Some(0) => {
                            s.out_model.pop_front();
                        }
                        Some(k) => {
                            // (transmission order is not part of the statement; keep the model in step)
                            s.out_model.remove(k);
                        }
                        None => s.model_dirty = true,
                    }
                } else if fresh && self.cfg.strict_fifo {
                    // arrival at the receiving connection
                    if let Some(win) = my_recv_window {
                        if *len <= win {
                            while *len + s.in_bytes > win {
                                if let Some((_, l)) = s.in_model.pop_front() {
                                    s.in_bytes -= l;
                                } else {
                                    break;
                                }
                            }
                            s.in_model.push_back((id, *len));
                            s.in_bytes += *len;
                        }
                    }
                }
            }
            if problem.is_some() {
                break;
            }
        }
        self.pk_seen = t.pkts.len();
        drop(t);
        if let Some((k, d)) = problem {
            w.violate(k, d);
        }
    }

    fn burst(&mut self, w: &mut World, inc: u32, from_unblock: bool) {
        self.sync_sealed(w);
        // (a blocked sender waits for DatagramsUnblocked, it does not poll)
        if self.sides[&inc].blocked.is_some() && !from_unblock {
            return;
        }
        let n = 1 + w.ch.choose("dg.burst_n", self.cfg.burst_max);
        for _ in 0..n {
            if !self.send_one(w, inc) {
                break;
            }
        }
        let s = self.sides.get_mut(&inc).unwrap();
        if s.pos < s.plans.len() && s.blocked.is_none() && !s.gone {
            // more later (also when this burst ended early for another reason)
            let at = w.ch.range_log("dg.next_burst_ms", 0, self.cfg.horizon_ms) * MS;
            w.wake_in(at.max(1), TAG_DGRAM + ((inc as u64) << 8));
        }
    }

    /// returns false when sending should pause (blocked / nothing left / connection gone)
    fn send_one(&mut self, w: &mut World, inc: u32) -> bool {
        let key = self.conn_key(w, inc);
        let knobs = self.knobs(self.sides[&inc].is_client).clone();
        let peer_knobs = self.knobs(!self.sides[&inc].is_client).clone();
        let s = self.sides.get_mut(&inc).unwrap();
        if s.gone || !s.connected || w.conns[inc as usize].conn.is_closed() {
            return false;
        }
        let (max, space) = {
            let d = w.conn_mut(inc).datagrams();
            (d.max_size(), d.send_buffer_space())
        };
        let s = self.sides.get_mut(&inc).unwrap();
        // what to send: a previously blocked datagram first
        let (data, drop, retry) = match s.blocked.take() {
            Some((d, dr)) => (d, dr, true),
            None => {
                let Some(p) = s.plans.get(s.pos).cloned() else { return false };
                s.pos += 1;
                let m = max.unwrap_or(1200);
                let len = match p.size_sel {
                    0 => 0,
                    1 => 1,
                    2 => 2 + (p.fine % 98) as usize,
                    3 => 100 + (p.fine as usize % m.max(101).saturating_sub(100)),
                    4 => m.saturating_sub(1),
                    5 => m,
                    6 => m + 1,
                    7 => m * 2 + (p.fine as usize % 60_000),
                    _ => (knobs.dgram_send_buf + (p.fine % 3) as usize).saturating_sub(1).min(70_000),
                };
                let seq = s.next_seq;
                s.next_seq += 1;
                let mut d = vec![0u8; len];
                pat_fill(mix(&[KEY, key as u64, s.is_client as u64, seq]), 0, &mut d);
                (d, p.drop, false)
            }
        };
        let len = data.len();
        let id = cid(&data);
        // model bookkeeping before the call
        let queued: usize = s.out_model.iter().map(|(_, l)| *l).sum();
        let model_space = knobs.dgram_send_buf.saturating_sub(queued);
        if !s.model_dirty && space != model_space {
            // An MTU reduction (black hole, new path) discards queued datagrams that no longer
            // fit; the estimate may have recovered since, so the exact set is unknown: accept any
            // outcome between "nothing discarded" and "everything that could ever be oversized
            // discarded", and stop comparing exactly on this connection.
            let small: usize = s.out_model.iter().filter(|(_, l)| *l < 1100).map(|(_, l)| *l).sum();
            let hi = knobs.dgram_send_buf.saturating_sub(small);
            if space < model_space || space > hi {
                w.violate("send-buffer-space-disagrees", format!("inc{} send_buffer_space() = {} but {} bytes of accepted datagrams are neither sent nor evicted (send buffer {}): expected {} (or up to {} if an MTU reduction discarded the large ones)", inc, space, queued, knobs.dgram_send_buf, model_space, hi));
                return false;
            }
            s.model_dirty = true;
            w.probes.hit("dgram_oversized_discarded");
        }
        let expect: &str = if knobs.dgram_recv_buf.is_none() {
            "Disabled"
        } else if max.is_none() {
            "UnsupportedByPeer"
        } else if len > max.unwrap().min(knobs.dgram_send_buf) {
            "TooLarge"
        } else if !drop && len > space {
            "Blocked"
        } else {
            "Ok"
        };
        // the reported maximum never exceeds the peer's advertised limit
        if let (Some(m), Some(pl)) = (max, peer_knobs.dgram_recv_buf) {
            if m > pl.min(65_535) {
                w.violate("max-size-exceeds-peer-limit", format!("inc{} max_size() = {} but the peer's max_datagram_frame_size is {}", inc, m, pl.min(65_535)));
                return false;
            }
            let mtu = w.conns[inc as usize].conn.current_mtu() as usize;
            // the smallest packet that can carry it: flags, the peer's connection ID, one byte of
            // packet number, the frame type (no length: last frame), the payload, the AEAD tag
            let peer = w.conns[inc as usize].peer;
            let dcid = if peer != crate::tap::NO_INC && (peer as usize) < w.conns.len() { w.nodes[w.conns[peer as usize].node as usize].cid_len } else { 0 };
            if m + 1 + dcid + 1 + 1 + 16 > mtu {
                w.violate("max-size-exceeds-packet", format!("inc{} max_size() = {} cannot fit a packet on a path with MTU estimate {} (the peer's connection IDs are {} bytes long)", inc, m, mtu, dcid));
                return false;
            }
        }
        if max.is_some() && peer_knobs.dgram_recv_buf.is_none() {
            w.violate("max-size-without-peer-support", format!("inc{} max_size() = {:?} although the peer does not support datagrams", inc, max));
            return false;
        }
        let r = w.conn_mut(inc).datagrams().send(Bytes::from(data.clone()), drop);
        let got: &str = match &r {
            Ok(()) => "Ok",
            Err(SendDatagramError::Disabled) => "Disabled",
            Err(SendDatagramError::UnsupportedByPeer) => "UnsupportedByPeer",
            Err(SendDatagramError::TooLarge) => "TooLarge",
            Err(SendDatagramError::Blocked(_)) => "Blocked",
        };
        w.trace_item(|| format!("dgram send inc={} len={} drop={} max={:?} space={} -> {}", inc, len, drop, max, space, got), mix(&[0xD6, inc as u64, len as u64, drop as u64, got.len() as u64]));
        if got != expect {
            w.violate("datagram-send-result-unexpected", format!("inc{} send({} bytes, drop={}) returned {} but max_size()={:?}, send_buffer_space()={}, send buffer {} imply {}", inc, len, drop, got, max, space, knobs.dgram_send_buf, expect));
            return false;
        }
        let s = self.sides.get_mut(&inc).unwrap();
        match got {
            "Ok" => {
                w.probes.hit("dgram_accepted");
                if len == max.unwrap() {
                    w.probes.hit("dgram_accepted_at_max_size");
                }
                if drop {
                    let mut q: usize = s.out_model.iter().map(|(_, l)| *l).sum();
                    while q + len > knobs.dgram_send_buf {
                        match s.out_model.pop_front() {
                            Some((_, l)) => {
                                q -= l;
                                w.probes.hit("dgram_evicted_by_drop");
                            }
                            None => break,
                        }
                    }
                }
                s.out_model.push_back((id, len));
                *s.accepted.entry(id).or_insert(0) += 1;
                s.accepted_n += 1;
                true
            }
            "Blocked" => {
                s.blocked = Some((data, drop));
                s.blocked_results += 1;
                w.probes.hit("dgram_blocked");
                let _ = retry;
                false
            }
            "TooLarge" => {
                w.probes.hit("dgram_too_large");
                true
            }
            _ => true,
        }
    }

    fn drain(&mut self, w: &mut World, inc: u32, from_event: bool) {
        self.sync_sealed(w);
        let peer = w.conns[inc as usize].peer;
        let s = self.sides.get_mut(&inc).unwrap();
        if s.gone {
            return;
        }
        if from_event && s.leftover {
            // an event while the buffer was known to be non-empty
            w.probes.hit("dgram_event_while_non_empty");
        }
        s.leftover = false;
        let slow = w.ch.chance("dg.slow_reader", self.cfg.slow_reader, 1000);
        let take = if slow { w.ch.choose("dg.take", 4) as usize } else { usize::MAX };
        let mut n = 0usize;
        loop {
            if n >= take {
                break;
            }
            let Some(b) = w.conn_mut(inc).datagrams().recv() else { break };
            n += 1;
            let id = cid(&b);
            w.trace_item(|| format!("dgram recv inc={} len={}", inc, b.len()), mix(&[0xD7, inc as u64, id]));
            let sent = if peer != NO_INC { self.sides.get(&peer).map(|p| p.accepted.get(&id).copied().unwrap_or(0)) } else { None };
            let s = self.sides.get_mut(&inc).unwrap();
            let c = s.received.entry(id).or_insert(0);
            *c += 1;
            s.received_n += 1;
            if let Some(sent) = sent {
                if sent == 0 {
                    w.violate("datagram-never-sent", format!("inc{} received a {}-byte datagram that matches no datagram the peer application sent (corrupted, split, merged or invented)", inc, b.len()));
                    return;
                }
                if *c > sent {
                    w.violate("datagram-delivered-twice", format!("inc{} received a {}-byte datagram {} times but the peer sent that content {} times", inc, b.len(), *c, sent));
                    return;
                }
            }
            if self.cfg.strict_fifo {
                match s.in_model.pop_front() {
                    Some((mid, ml)) => {
                        s.in_bytes -= ml;
                        if mid != id {
                            w.violate("datagram-buffer-not-fifo", format!("inc{} recv() returned a {}-byte datagram but the oldest datagram still buffered (arrival order, oldest-first overflow) is a different one of {} bytes", inc, b.len(), ml));
                            return;
                        }
                    }
                    None => {
                        w.violate("datagram-buffer-not-fifo", format!("inc{} recv() returned a {}-byte datagram but every datagram that arrived was already delivered or had to be dropped", inc, b.len()));
                        return;
                    }
                }
            }
        }
        w.probes.hit("dgram_received");
        if n >= take {
            // come back later for the rest (no further event is promised while non-empty)
            let s = self.sides.get_mut(&inc).unwrap();
            s.leftover = true;
            let d: Ns = w.ch.range_log("dg.drain_later_ms", 1, 2000) * MS;
            w.wake_in(d, TAG_DGRAM + ((inc as u64) << 8) + 1);
            w.probes.hit("dgram_slow_reader");
        } else if self.cfg.strict_fifo {
            let s = self.sides.get_mut(&inc).unwrap();
            if let Some((_, l)) = s.in_model.front() {
                let l = *l;
                w.violate("datagram-lost-from-buffer", format!("inc{} recv() returned None but a {}-byte datagram that arrived and was not displaced by newer ones is still due", inc, l));
            }
        }
    }

    /// end-of-run checks on connections that are still alive in a quiescent world
    pub fn end_checks(&mut self, w: &mut World) {
        if !w.violations.is_empty() {
            return;
        }
        self.sync_sealed(w);
        let quiescent = w.queue.is_empty();
        let incs: Vec<u32> = self.sides.keys().copied().collect();
        for inc in incs {
            let (gone, leftover, blocked, connected) = {
                let s = &self.sides[&inc];
                (s.gone, s.leftover, s.blocked.is_some(), s.connected)
            };
            if gone || !connected || w.conns[inc as usize].conn.is_closed() || !w.conns[inc as usize].lost.is_empty() {
                continue;
            }
            let peer = w.conns[inc as usize].peer;
            let peer_alive = peer != NO_INC && !w.conns[peer as usize].conn.is_closed() && w.conns[peer as usize].lost.is_empty();
            if !leftover {
                if let Some(b) = w.conn_mut(inc).datagrams().recv() {
                    w.violate("datagram-arrived-without-event", format!("inc{}: a {}-byte datagram sits in the receive buffer but no DatagramReceived event announced it (the application had emptied the buffer)", inc, b.len()));
                    return;
                }
            }
            if quiescent && peer_alive {
                let buf = self.knobs(self.sides[&inc].is_client).dgram_send_buf;
                let space = w.conn_mut(inc).datagrams().send_buffer_space();
                if space != buf {
                    let (mx, mtu) = (w.conn_mut(inc).datagrams().max_size(), w.conns[inc as usize].conn.current_mtu());
                    w.violate("datagram-stuck-in-send-buffer", format!("inc{}: the world is quiescent yet {} bytes of accepted datagrams are still queued (max_size now {:?}, MTU estimate {})", inc, buf - space, mx, mtu));
                    return;
                }
                if blocked {
                    w.violate("datagrams-unblocked-never-emitted", format!("inc{}: send() returned Blocked, the queue has drained since, but DatagramsUnblocked was never emitted", inc));
                    return;
                }
            }
        }
        let _ = Side::Client;
    }
}
