//! Crypto tap: wraps the real rustls/ring QUIC crypto objects handed to quinn-proto through its
//! public `crypto` traits. Every call is forwarded to the real object; in addition the tap
//! records plaintext on encrypt / successful decrypt (sender ledger / acceptance ledger), keeps
//! handles to the real keys so that the harness can protect packets of its own, and can
//! overwrite the plaintext of an outgoing packet just before it is sealed (authenticated frame
//! injection from a hostile peer into an unmodified receiver).

use std::any::Any;
use std::collections::{BTreeMap, VecDeque};
use std::sync::{Arc, Mutex};

use bytes::BytesMut;
use quinn_proto::crypto::{
    self, CryptoError, ExportKeyingMaterialError, HeaderKey, KeyPair, Keys, PacketKey, Session,
    UnsupportedVersion,
};
use quinn_proto::transport_parameters::TransportParameters;
use quinn_proto::{ConnectError, ConnectionId, Side, TransportError};

use crate::wire::Space;

pub const NO_INC: u32 = u32::MAX;

#[derive(Clone)]
pub struct KeyInfo {
    pub node: u32,
    /// owning connection incarnation, or NO_INC for endpoint-level keys
    pub owner: u32,
    pub space: Space,
    /// key-update generation (1-RTT only)
    pub generation: u32,
    /// true: the key this side encrypts with; false: the key it decrypts with
    pub local: bool,
    pub pkt: Arc<dyn PacketKey>,
    pub hdr: Option<Arc<dyn HeaderKey>>,
}

#[derive(Clone, Debug)]
pub struct PktRec {
    pub seq: u64,
    pub t: u64,
    /// endpoint being driven when this happened
    pub node: u32,
    /// connection being driven (NO_INC when in endpoint-level code before a connection exists)
    pub inc: u32,
    pub key: u32,
    pub space: Space,
    pub generation: u32,
    pub enc: bool,
    pub ok: bool,
    pub pn: u64,
    pub header: Vec<u8>,
    /// plaintext payload (empty for failed decrypts)
    pub payload: Vec<u8>,
    pub rewritten: bool,
    /// id of the datagram being handled when a decrypt happened (u32::MAX if unknown)
    pub dgram: u32,
}

#[derive(Default)]
pub struct TapLog {
    pub now: u64,
    pub seq: u64,
    pub node: u32,
    pub inc: u32,
    pub cur_dgram: u32,
    pub record: bool,
    pub keys: Vec<KeyInfo>,
    pub pkts: Vec<PktRec>,
    /// frames to write into the next packet sealed by (inc, space): (bytes, overlay). Overlay
    /// writes over trailing PADDING only (the genuine frames stay); replace overwrites the whole
    /// payload and pads the rest.
    pub inject: BTreeMap<(u32, Space), VecDeque<(Vec<u8>, bool)>>,
    /// optional patch applied to the transport parameters a node's sessions announce
    pub params_patch: BTreeMap<u32, Arc<dyn Fn(Vec<u8>) -> Vec<u8> + Send + Sync>>,
    pub params_patched: u64,
    pub params_patch_rejected: u64,
    pub injected: u64,
    /// bits to set in the first header byte of the next packet sealed by (inc, space) — the
    /// reserved bits, which header protection hides and the AEAD authenticates
    pub header_or: BTreeMap<(u32, Space), u8>,
    /// sessions created: (node, inc, side)
    pub sessions: Vec<(u32, u32, bool)>,
}

pub type Tap = Arc<Mutex<TapLog>>;

pub fn new_tap() -> Tap {
    Arc::new(Mutex::new(TapLog { record: true, inc: NO_INC, cur_dgram: u32::MAX, ..Default::default() }))
}

impl TapLog {
    fn add_key(
        &mut self,
        owner: u32,
        node: u32,
        space: Space,
        generation: u32,
        local: bool,
        pkt: Arc<dyn PacketKey>,
        hdr: Option<Arc<dyn HeaderKey>>,
    ) -> u32 {
        self.keys.push(KeyInfo { node, owner, space, generation, local, pkt, hdr });
        (self.keys.len() - 1) as u32
    }

    /// latest key of `owner` in `space` for the given direction
    pub fn find_key(&self, owner: u32, space: Space, local: bool) -> Option<u32> {
        (0..self.keys.len() as u32).rev().find(|&i| {
            let k = &self.keys[i as usize];
            k.owner == owner && k.space == space && k.local == local
        })
    }

    /// Protect a packet with a tapped key. `header` is the complete unprotected header ending
    /// in the packet-number bytes; returns the wire bytes.
    pub fn protect(&self, key: u32, pn: u64, header: &[u8], pn_len: usize, payload: &[u8]) -> Vec<u8> {
        let k = &self.keys[key as usize];
        let mut buf = Vec::with_capacity(header.len() + payload.len() + 16);
        buf.extend_from_slice(header);
        buf.extend_from_slice(payload);
        buf.resize(buf.len() + k.pkt.tag_len(), 0);
        k.pkt.encrypt(pn, &mut buf, header.len());
        if let Some(h) = &k.hdr {
            h.encrypt(header.len() - pn_len, &mut buf);
        }
        buf
    }
}

// ------------------------------------------------------------------------------------------

struct TapPacketKey {
    inner: Arc<dyn PacketKey>,
    id: u32,
    tap: Tap,
}

impl PacketKey for TapPacketKey {
    fn encrypt(&self, packet: u64, buf: &mut [u8], header_len: usize) {
        {
            let mut t = self.tap.lock().unwrap();
            let info = t.keys[self.id as usize].clone();
            let tag = self.inner.tag_len();
            let end = buf.len() - tag;
            let mut rewritten = false;
            if info.owner != NO_INC {
                if let Some(mask) = t.header_or.remove(&(info.owner, info.space)) {
                    buf[0] |= mask;
                    rewritten = true;
                    t.injected += 1;
                }
                let cap = end - header_len;
                if let Some(q) = t.inject.get_mut(&(info.owner, info.space)) {
                    if let Some((f, overlay)) = q.front().cloned() {
                        if overlay {
                            // the trailing PADDING, located by parsing the frames (scanning for
                            // zero bytes would depend on the randomised CRYPTO contents)
                            let pad_start = header_len + crate::wire::trailing_padding_start(&buf[header_len..end]);
                            if end - pad_start >= f.len() {
                                q.pop_front();
                                buf[pad_start..pad_start + f.len()].copy_from_slice(&f);
                                rewritten = true;
                                t.injected += 1;
                            }
                        } else if f.len() <= cap {
                            q.pop_front();
                            buf[header_len..header_len + f.len()].copy_from_slice(&f);
                            for b in &mut buf[header_len + f.len()..end] {
                                *b = 0;
                            }
                            rewritten = true;
                            t.injected += 1;
                        }
                    }
                }
            }
            if t.record {
                let rec = PktRec {
                    seq: t.seq,
                    t: t.now,
                    node: t.node,
                    inc: if info.owner != NO_INC { info.owner } else { t.inc },
                    key: self.id,
                    space: info.space,
                    generation: info.generation,
                    enc: true,
                    ok: true,
                    pn: packet,
                    header: buf[..header_len].to_vec(),
                    payload: buf[header_len..end].to_vec(),
                    rewritten,
                    dgram: u32::MAX,
                };
                t.pkts.push(rec);
            }
        }
        self.inner.encrypt(packet, buf, header_len)
    }

    fn decrypt(&self, packet: u64, header: &[u8], payload: &mut BytesMut) -> Result<(), CryptoError> {
        let res = self.inner.decrypt(packet, header, payload);
        let mut t = self.tap.lock().unwrap();
        if t.record {
            let info = t.keys[self.id as usize].clone();
            let rec = PktRec {
                seq: t.seq,
                t: t.now,
                node: t.node,
                inc: if info.owner != NO_INC { info.owner } else { t.inc },
                key: self.id,
                space: info.space,
                generation: info.generation,
                enc: false,
                ok: res.is_ok(),
                pn: packet,
                header: header.to_vec(),
                payload: if res.is_ok() { payload.to_vec() } else { Vec::new() },
                rewritten: false,
                dgram: t.cur_dgram,
            };
            t.pkts.push(rec);
        }
        res
    }

    fn tag_len(&self) -> usize {
        self.inner.tag_len()
    }
    fn confidentiality_limit(&self) -> u64 {
        self.inner.confidentiality_limit()
    }
    fn integrity_limit(&self) -> u64 {
        self.inner.integrity_limit()
    }
}

struct TapHeaderKey {
    inner: Arc<dyn HeaderKey>,
}

impl HeaderKey for TapHeaderKey {
    fn decrypt(&self, pn_offset: usize, packet: &mut [u8]) {
        self.inner.decrypt(pn_offset, packet)
    }
    fn encrypt(&self, pn_offset: usize, packet: &mut [u8]) {
        self.inner.encrypt(pn_offset, packet)
    }
    fn sample_size(&self) -> usize {
        self.inner.sample_size()
    }
}

fn wrap_pkt(tap: &Tap, t: &mut TapLog, owner: u32, node: u32, space: Space, generation: u32, local: bool, k: Box<dyn PacketKey>, hdr: Option<Arc<dyn HeaderKey>>) -> Box<dyn PacketKey> {
    let inner: Arc<dyn PacketKey> = Arc::from(k);
    let id = t.add_key(owner, node, space, generation, local, inner.clone(), hdr);
    Box::new(TapPacketKey { inner, id, tap: tap.clone() })
}

fn wrap_keys(tap: &Tap, owner: u32, node: u32, space: Space, keys: Keys) -> Keys {
    let mut t = tap.lock().unwrap();
    let hl: Arc<dyn HeaderKey> = Arc::from(keys.header.local);
    let hr: Arc<dyn HeaderKey> = Arc::from(keys.header.remote);
    let pl = wrap_pkt(tap, &mut t, owner, node, space, 0, true, keys.packet.local, Some(hl.clone()));
    let pr = wrap_pkt(tap, &mut t, owner, node, space, 0, false, keys.packet.remote, Some(hr.clone()));
    Keys {
        header: KeyPair { local: Box::new(TapHeaderKey { inner: hl }), remote: Box::new(TapHeaderKey { inner: hr }) },
        packet: KeyPair { local: pl, remote: pr },
    }
}

pub struct TapSession {
    inner: Box<dyn Session>,
    tap: Tap,
    node: u32,
    owner: u32,
    side: Side,
    handshake_keys_given: u32,
    generation: u32,
}

impl Session for TapSession {
    fn initial_keys(&self, dst_cid: ConnectionId, side: Side) -> Keys {
        wrap_keys(&self.tap, self.owner, self.node, Space::Initial, self.inner.initial_keys(dst_cid, side))
    }
    fn handshake_data(&self) -> Option<Box<dyn Any>> {
        self.inner.handshake_data()
    }
    fn peer_identity(&self) -> Option<Box<dyn Any>> {
        self.inner.peer_identity()
    }
    fn early_crypto(&self) -> Option<(Box<dyn HeaderKey>, Box<dyn PacketKey>)> {
        let (h, p) = self.inner.early_crypto()?;
        let mut t = self.tap.lock().unwrap();
        let h: Arc<dyn HeaderKey> = Arc::from(h);
        // the client writes with it, the server reads with it
        let local = self.side == Side::Client;
        let p = wrap_pkt(&self.tap, &mut t, self.owner, self.node, Space::ZeroRtt, 0, local, p, Some(h.clone()));
        Some((Box::new(TapHeaderKey { inner: h }), p))
    }
    fn early_data_accepted(&self) -> Option<bool> {
        self.inner.early_data_accepted()
    }
    fn is_handshaking(&self) -> bool {
        self.inner.is_handshaking()
    }
    fn read_handshake(&mut self, buf: &[u8]) -> Result<bool, TransportError> {
        self.inner.read_handshake(buf)
    }
    fn transport_parameters(&self) -> Result<Option<TransportParameters>, TransportError> {
        self.inner.transport_parameters()
    }
    fn write_handshake(&mut self, buf: &mut Vec<u8>) -> Option<Keys> {
        let keys = self.inner.write_handshake(buf)?;
        let space = if self.handshake_keys_given == 0 { Space::Handshake } else { Space::OneRtt };
        self.handshake_keys_given += 1;
        Some(wrap_keys(&self.tap, self.owner, self.node, space, keys))
    }
    fn next_1rtt_keys(&mut self) -> Option<KeyPair<Box<dyn PacketKey>>> {
        let kp = self.inner.next_1rtt_keys()?;
        self.generation += 1;
        let mut t = self.tap.lock().unwrap();
        // header keys do not change on key update: reuse the generation-0 header keys for forging
        let hl = t.find_key(self.owner, Space::OneRtt, true).and_then(|k| t.keys[k as usize].hdr.clone());
        let hr = t.find_key(self.owner, Space::OneRtt, false).and_then(|k| t.keys[k as usize].hdr.clone());
        let local = wrap_pkt(&self.tap, &mut t, self.owner, self.node, Space::OneRtt, self.generation, true, kp.local, hl);
        let remote = wrap_pkt(&self.tap, &mut t, self.owner, self.node, Space::OneRtt, self.generation, false, kp.remote, hr);
        Some(KeyPair { local, remote })
    }
    fn is_valid_retry(&self, orig_dst_cid: ConnectionId, header: &[u8], payload: &[u8]) -> bool {
        self.inner.is_valid_retry(orig_dst_cid, header, payload)
    }
    fn export_keying_material(&self, output: &mut [u8], label: &[u8], context: &[u8]) -> Result<(), ExportKeyingMaterialError> {
        self.inner.export_keying_material(output, label, context)
    }
}

/// Apply the node's transport-parameter patch: serialize, patch the TLV bytes, parse back with
/// quinn's own (public) parser as the *reader* would. Values the parser rejects cannot be sent
/// through the real TLS session and are counted.
fn patch_params(tap: &Tap, node: u32, params: &TransportParameters, reader: Side) -> TransportParameters {
    let patch = tap.lock().unwrap().params_patch.get(&node).cloned();
    let Some(patch) = patch else { return *params };
    let mut bytes = Vec::new();
    params.write(&mut bytes);
    let patched = patch(bytes);
    match TransportParameters::read(reader, &mut &patched[..]) {
        Ok(p) => {
            tap.lock().unwrap().params_patched += 1;
            p
        }
        Err(_) => {
            tap.lock().unwrap().params_patch_rejected += 1;
            *params
        }
    }
}

pub struct TapClientConfig {
    pub inner: Arc<dyn crypto::ClientConfig>,
    pub tap: Tap,
    pub node: u32,
}

impl crypto::ClientConfig for TapClientConfig {
    fn start_session(self: Arc<Self>, version: u32, server_name: &str, params: &TransportParameters) -> Result<Box<dyn Session>, ConnectError> {
        let patched = patch_params(&self.tap, self.node, params, Side::Server);
        let inner = self.inner.clone().start_session(version, server_name, &patched)?;
        let owner = {
            let mut t = self.tap.lock().unwrap();
            let inc = t.inc;
            t.sessions.push((self.node, inc, true));
            inc
        };
        Ok(Box::new(TapSession { inner, tap: self.tap.clone(), node: self.node, owner, side: Side::Client, handshake_keys_given: 0, generation: 0 }))
    }
}

pub struct TapServerConfig {
    pub inner: Arc<dyn crypto::ServerConfig>,
    pub tap: Tap,
    pub node: u32,
}

impl crypto::ServerConfig for TapServerConfig {
    fn initial_keys(&self, version: u32, dst_cid: ConnectionId) -> Result<Keys, UnsupportedVersion> {
        let keys = self.inner.initial_keys(version, dst_cid)?;
        Ok(wrap_keys(&self.tap, NO_INC, self.node, Space::Initial, keys))
    }
    fn retry_tag(&self, version: u32, orig_dst_cid: ConnectionId, packet: &[u8]) -> [u8; 16] {
        self.inner.retry_tag(version, orig_dst_cid, packet)
    }
    fn start_session(self: Arc<Self>, version: u32, params: &TransportParameters) -> Box<dyn Session> {
        let patched = patch_params(&self.tap, self.node, params, Side::Client);
        let inner = self.inner.clone().start_session(version, &patched);
        let owner = {
            let mut t = self.tap.lock().unwrap();
            let inc = t.inc;
            t.sessions.push((self.node, inc, false));
            inc
        };
        Box::new(TapSession { inner, tap: self.tap.clone(), node: self.node, owner, side: Side::Server, handshake_keys_given: 0, generation: 0 })
    }
}
