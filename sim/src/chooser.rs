//! The single source of nondeterminism of a world.
//!
//! Every decision is drawn through a `Chooser`. In generate mode the outcome comes from a
//! seeded xoshiro256** PRNG and is recorded; in replay mode a recorded list of outcomes is
//! played back (0 when exhausted or out of range). Outcome 0 is always the benign default,
//! which is what makes recorded lists shrinkable by deletion and zeroing.

#[derive(Clone)]
pub struct Rng {
    s: [u64; 4],
}

pub fn splitmix64(x: &mut u64) -> u64 {
    *x = x.wrapping_add(0x9E37_79B9_7F4A_7C15);
    let mut z = *x;
    z = (z ^ (z >> 30)).wrapping_mul(0xBF58_476D_1CE4_E5B9);
    z = (z ^ (z >> 27)).wrapping_mul(0x94D0_49BB_1331_11EB);
    z ^ (z >> 31)
}

/// Stateless mixing of several words into one (used for seeds and data patterns).
pub fn mix(words: &[u64]) -> u64 {
    let mut acc = 0x243F_6A88_85A3_08D3u64;
    for w in words {
        acc ^= *w;
        let mut t = acc;
        acc = splitmix64(&mut t);
    }
    acc
}

impl Rng {
    pub fn new(seed: u64) -> Self {
        let mut x = seed;
        let s = [
            splitmix64(&mut x),
            splitmix64(&mut x),
            splitmix64(&mut x),
            splitmix64(&mut x),
        ];
        Self { s }
    }
    pub fn next_u64(&mut self) -> u64 {
        let result = self.s[1].wrapping_mul(5).rotate_left(7).wrapping_mul(9);
        let t = self.s[1] << 17;
        self.s[2] ^= self.s[0];
        self.s[3] ^= self.s[1];
        self.s[1] ^= self.s[2];
        self.s[0] ^= self.s[3];
        self.s[2] ^= t;
        self.s[3] = self.s[3].rotate_left(45);
        result
    }
    pub fn below(&mut self, n: u64) -> u64 {
        debug_assert!(n > 0);
        // multiply-shift; bias is irrelevant here
        ((self.next_u64() as u128 * n as u128) >> 64) as u64
    }
}

#[derive(Clone, Debug, PartialEq, Eq)]
pub struct Choice {
    pub site: &'static str,
    pub n: u32,
    pub v: u32,
}

thread_local! {
    /// every outcome drawn by the world currently running on this thread: lets the runner
    /// recover the choice list of a world that ended in a panic (the chooser itself is lost
    /// during unwinding)
    pub static DRAWN: std::cell::RefCell<Vec<u32>> = const { std::cell::RefCell::new(Vec::new()) };
}

enum Mode {
    Gen(Rng),
    Replay { vals: Vec<u32>, pos: usize },
}

pub struct Chooser {
    mode: Mode,
    pub rec: Vec<Choice>,
    /// when true, every draw returns the benign default without consuming anything
    /// (used by harness code paths that must not perturb the schedule)
    pub frozen: bool,
}

impl Chooser {
    pub fn generate(seed: u64) -> Self {
        Self { mode: Mode::Gen(Rng::new(seed)), rec: Vec::new(), frozen: false }
    }
    pub fn replay(vals: Vec<u32>) -> Self {
        Self { mode: Mode::Replay { vals, pos: 0 }, rec: Vec::new(), frozen: false }
    }
    pub fn values(&self) -> Vec<u32> {
        self.rec.iter().map(|c| c.v).collect()
    }

    fn record(&mut self, site: &'static str, n: u32, f: impl FnOnce(&mut Rng) -> u32) -> u32 {
        if self.frozen || n <= 1 {
            return 0;
        }
        let v = match &mut self.mode {
            Mode::Gen(rng) => f(rng),
            Mode::Replay { vals, pos } => {
                let v = vals.get(*pos).copied().unwrap_or(0);
                *pos += 1;
                if v < n {
                    v
                } else {
                    0
                }
            }
        };
        debug_assert!(v < n);
        self.rec.push(Choice { site, n, v });
        DRAWN.with(|d| d.borrow_mut().push(v));
        v
    }

    /// uniform in 0..n; 0 is the benign default
    pub fn choose(&mut self, site: &'static str, n: u32) -> u32 {
        self.record(site, n, |r| r.below(n as u64) as u32)
    }

    /// true with probability num/den; false is benign
    pub fn chance(&mut self, site: &'static str, num: u32, den: u32) -> bool {
        if num == 0 {
            return false;
        }
        self.record(site, 2, |r| (r.below(den as u64) < num as u64) as u32) == 1
    }

    /// index into weights; index 0 is benign
    pub fn weighted(&mut self, site: &'static str, weights: &[u32]) -> usize {
        let total: u64 = weights.iter().map(|w| *w as u64).sum();
        if total == 0 {
            return 0;
        }
        self.record(site, weights.len() as u32, |r| {
            let mut x = r.below(total);
            for (i, w) in weights.iter().enumerate() {
                if x < *w as u64 {
                    return i as u32;
                }
                x -= *w as u64;
            }
            0
        }) as usize
    }

    /// value in lo..=hi, lo is benign
    pub fn range(&mut self, site: &'static str, lo: u64, hi: u64) -> u64 {
        debug_assert!(hi >= lo);
        let span = (hi - lo).min(u32::MAX as u64 - 1) as u32 + 1;
        lo + self.record(site, span, |r| r.below(span as u64) as u32) as u64
    }

    /// value in lo..=hi, biased to small values and to boundaries (log-uniform)
    pub fn range_log(&mut self, site: &'static str, lo: u64, hi: u64) -> u64 {
        debug_assert!(hi >= lo);
        let span = (hi - lo).min(u32::MAX as u64 - 1) as u32 + 1;
        lo + self.record(site, span, |r| {
            let bits = 64 - (span as u64).leading_zeros() as u64; // 1..=32
            let b = r.below(bits + 1); // number of significant bits of the result
            let v = if b == 0 { 0 } else { r.below(1u64 << b) };
            (v.min(span as u64 - 1)) as u32
        }) as u64
    }

    pub fn pick<'a, T>(&mut self, site: &'static str, items: &'a [T]) -> &'a T {
        &items[self.choose(site, items.len() as u32) as usize]
    }

    /// Raw random bytes that are *not* worth recording (key material, CIDs, garbage
    /// payloads): derived from a recorded 32-bit seed so that replay stays exact.
    pub fn bytes(&mut self, site: &'static str, out: &mut [u8]) {
        let seed = self.record(site, u32::MAX, |r| r.below(u32::MAX as u64) as u32);
        let mut r = Rng::new(seed as u64 ^ 0xB17E5);
        for chunk in out.chunks_mut(8) {
            let w = r.next_u64().to_le_bytes();
            chunk.copy_from_slice(&w[..chunk.len()]);
        }
    }
}
