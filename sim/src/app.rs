//! Event-driven application model ("workload") with the stream-data oracle built in.
//!
//! Applications act only on the events the connection gives them (plus one initial attempt
//! when `Connected` arrives): a lost notification therefore shows up as a stall. All data is a
//! keyed pattern, so every byte a reader obtains can be checked without storing the stream.

use std::collections::BTreeMap;

use bytes::Bytes;
use quinn_proto::{Dir, Event, FinishError, ReadError, ReadableError, Side, StreamEvent, StreamId, VarInt, WriteError};

use crate::tap::NO_INC;
use crate::util::{pat_check, pat_fill, stream_key, Ranges};
use crate::world::World;

pub const WORLD_KEY: u64 = 0x51D0_C0DE;

#[derive(Clone, Debug, PartialEq, Eq)]
pub enum EndPlan {
    Finish,
    /// write `at` bytes, then reset with `code`
    Reset { at: u64, code: u64 },
    /// never finish (stream stays open)
    Leave,
}

#[derive(Clone, Debug)]
pub struct StreamPlan {
    pub dir: Dir,
    pub total: u64,
    pub end: EndPlan,
    pub chunk: usize,
    pub use_chunks: bool,
    pub prio: i32,
}

#[derive(Clone, Debug)]
pub struct ReadPlan {
    pub unordered_from: Option<u64>,
    pub maxlen: usize,
    /// stop(code) once this many bytes were read
    pub stop: Option<(u64, u64)>,
    /// the application reads this long after it was told the stream is readable (data piles up
    /// in the receive buffer meanwhile)
    pub lazy_ms: Option<u64>,
}

impl Default for ReadPlan {
    fn default() -> Self {
        Self { unordered_from: None, maxlen: usize::MAX, stop: None, lazy_ms: None }
    }
}

#[derive(Clone, Debug, PartialEq, Eq)]
pub enum SState {
    Writing,
    FinishCalled,
    Finished,
    ResetCalled(u64),
    /// write/finish reported Stopped(code) or a Stopped event arrived; reset(code) was called
    StoppedReset(u64),
    /// the connection was lost / closed while the stream was open
    Abandoned,
}

#[derive(Clone, Debug)]
pub struct SendSt {
    pub total: u64,
    pub written: u64,
    pub end: EndPlan,
    pub chunk: usize,
    pub use_chunks: bool,
    pub state: SState,
    pub blocked: bool,
    pub finish_called_with: Option<u64>,
    pub reset_code: Option<u64>,
    pub stopped_event: Option<u64>,
    pub finished_events: u32,
    pub stopped_events: u32,
    pub opened_step: u64,
    /// 0 = opened before a 0-RTT rejection (or no 0-RTT involved), 1 = opened after one: part
    /// of the data-pattern key, so early data surfacing after a rejection cannot match
    pub epoch: u8,
}

#[derive(Clone, Debug, PartialEq, Eq)]
pub enum RTerm {
    End,
    Reset(u64),
    Stopped(u64),
}

#[derive(Clone, Debug)]
pub struct RecvSt {
    pub plan: ReadPlan,
    pub pos: u64,
    pub unordered: bool,
    pub delivered: Ranges,
    pub terminal: Option<RTerm>,
    pub lazy_pending: bool,
}

#[derive(Clone, Debug, Default)]
pub struct SideState {
    pub inc: u32,
    pub is_client: bool,
    pub connected: bool,
    pub confirmed: bool,
    pub lost: Option<String>,
    pub closed_locally: bool,
    pub plans: Vec<StreamPlan>,
    pub next_plan: usize,
    pub sends: BTreeMap<u64, SendSt>,
    pub recvs: BTreeMap<u64, RecvSt>,
    pub open_blocked: [bool; 2],
    pub bytes_read: u64,
    pub bytes_written: u64,
    /// cap on the size of responses this side writes on accepted bidi streams
    pub resp_cap: u64,
    /// the application started before `Connected` (0-RTT)
    pub early: bool,
    /// what `accepted_0rtt()` said at `Connected` (None: not an early side / not yet known)
    pub early_accepted: Option<bool>,
    pub epoch: u8,
    /// streams opened per direction in the current epoch (ids must be handed out in sequence)
    pub opened_count: [u64; 2],
    /// bytes written on streams that were wiped by a 0-RTT rejection
    pub early_bytes_rejected: u64,
    pub early_streams: u32,
}

#[derive(Clone, Debug)]
pub struct WorkloadCfg {
    /// probability x/1000 that an accepted stream is read unordered from some offset
    pub unordered: u32,
    /// probability x/1000 that a receiver stops a stream mid-way
    pub stop: u32,
    /// response size range for accepted bidi streams (0 = no response, just finish)
    pub resp_max: u64,
    /// check data integrity (C01 oracle); always on except where a hostile peer rewrites data
    pub check_data: bool,
    /// whether unexpected API results (ClosedStream on an open stream, …) are violations
    pub strict_api: bool,
    /// probability x/1000 that a reader is lazy (reads some milliseconds after each notification)
    pub lazy: u32,
}

impl Default for WorkloadCfg {
    fn default() -> Self {
        Self { unordered: 0, stop: 0, resp_max: 0, check_data: true, strict_api: true, lazy: 0 }
    }
}

pub const TAG_LAZY: u64 = 6 << 40;

pub struct Workload {
    pub cfg: WorkloadCfg,
    pub sides: BTreeMap<u32, SideState>,
    /// (connection, stream) of scheduled lazy reads, indexed by wake tag
    pub lazy_q: Vec<(u32, u64)>,
    /// connection keys (client incarnations) whose traffic is rewritten by a hostile peer: no
    /// data / API expectations hold there
    pub unchecked: std::collections::BTreeSet<u32>,
    /// send windows set at run time through `Connection::set_send_window` (latest per connection)
    pub send_window_set: BTreeMap<u32, u64>,
}

fn sid_u64(id: StreamId) -> u64 {
    VarInt::from(id).into_inner()
}
fn sid_from(v: u64) -> StreamId {
    let initiator = if v & 1 == 0 { Side::Client } else { Side::Server };
    let dir = if v & 2 == 0 { Dir::Bi } else { Dir::Uni };
    StreamId::new(initiator, dir, v >> 2)
}

impl Workload {
    pub fn new(cfg: WorkloadCfg) -> Self {
        Self { cfg, sides: BTreeMap::new(), lazy_q: Vec::new(), unchecked: Default::default(), send_window_set: BTreeMap::new() }
    }

    pub fn add_side(&mut self, inc: u32, is_client: bool, plans: Vec<StreamPlan>) {
        self.sides.insert(inc, SideState { inc, is_client, plans, resp_cap: u64::MAX, ..Default::default() });
    }

    /// the connection key both ends of a pair agree on: the client's incarnation id
    fn conn_key(&self, w: &World, inc: u32) -> u32 {
        if self.sides[&inc].is_client {
            inc
        } else {
            w.conns[inc as usize].peer
        }
    }

    fn peer(&self, w: &World, inc: u32) -> u32 {
        w.conns[inc as usize].peer
    }

    pub fn on_event(&mut self, w: &mut World, inc: u32, ev: &Event) {
        if !self.sides.contains_key(&inc) {
            return;
        }
        match ev {
            Event::Connected => {
                self.sides.get_mut(&inc).unwrap().connected = true;
                if self.sides[&inc].early {
                    let accepted = w.conns[inc as usize].conn.accepted_0rtt();
                    self.sides.get_mut(&inc).unwrap().early_accepted = Some(accepted);
                    if !accepted {
                        self.early_rejected(w, inc);
                    }
                }
                self.kick(w, inc);
            }
            Event::HandshakeConfirmed => {
                self.sides.get_mut(&inc).unwrap().confirmed = true;
            }
            Event::HandshakeDataReady => {}
            Event::ConnectionLost { reason } => {
                let s = self.sides.get_mut(&inc).unwrap();
                s.lost = Some(format!("{}", reason));
                for st in s.sends.values_mut() {
                    if matches!(st.state, SState::Writing | SState::FinishCalled) {
                        st.state = SState::Abandoned;
                    }
                }
            }
            Event::Stream(StreamEvent::Opened { dir }) => self.accept_all(w, inc, *dir),
            Event::Stream(StreamEvent::Readable { id }) => self.notify_readable(w, inc, sid_u64(*id)),
            Event::Stream(StreamEvent::Writable { id }) => {
                let sid = sid_u64(*id);
                if let Some(st) = self.sides.get_mut(&inc).unwrap().sends.get_mut(&sid) {
                    st.blocked = false;
                    self.pump_send(w, inc, sid);
                }
            }
            Event::Stream(StreamEvent::Available { dir }) => {
                self.sides.get_mut(&inc).unwrap().open_blocked[*dir as usize] = false;
                self.open_more(w, inc);
            }
            Event::Stream(StreamEvent::Finished { id }) => {
                let sid = sid_u64(*id);
                let s = self.sides.get_mut(&inc).unwrap();
                match s.sends.get_mut(&sid) {
                    Some(st) => {
                        st.finished_events += 1;
                        if st.finished_events > 1 {
                            viol(&self.unchecked, w, inc, "finished-twice", format!("inc{} stream {} Finished emitted {} times", inc, sid, st.finished_events));
                        }
                        if st.finish_called_with.is_none() {
                            viol(&self.unchecked, w, inc, "finished-without-finish", format!("inc{} stream {} Finished but finish() was never called", inc, sid));
                        }
                        if st.state == SState::FinishCalled {
                            st.state = SState::Finished;
                        }
                    }
                    None => viol(&self.unchecked, w, inc, "finished-unknown-stream", format!("inc{} Finished for stream {} we never opened", inc, sid)),
                }
            }
            Event::Stream(StreamEvent::Stopped { id, error_code }) => {
                let sid = sid_u64(*id);
                let code = error_code.into_inner();
                let known = self.sides[&inc].sends.contains_key(&sid);
                if !known {
                    viol(&self.unchecked, w, inc, "stopped-unknown-stream", format!("inc{} Stopped for stream {} we never opened", inc, sid));
                    return;
                }
                {
                    let st = self.sides.get_mut(&inc).unwrap().sends.get_mut(&sid).unwrap();
                    st.stopped_events += 1;
                    st.stopped_event = Some(code);
                    if st.stopped_events > 1 {
                        viol(&self.unchecked, w, inc, "stopped-twice", format!("inc{} stream {} Stopped emitted {} times", inc, sid, st.stopped_events));
                    }
                }
                self.check_stop_code(w, inc, sid, code);
                self.react_stopped(w, inc, sid, code);
            }
            Event::DatagramReceived | Event::DatagramsUnblocked => {}
        }
    }

    /// a Stopped(code) seen by a sender must be the code its peer's application used
    fn check_stop_code(&mut self, w: &mut World, inc: u32, sid: u64, code: u64) {
        let peer = self.peer(w, inc);
        if !self.cfg.check_data || peer == NO_INC {
            return;
        }
        if let Some(ps) = self.sides.get(&peer) {
            match ps.recvs.get(&sid).and_then(|r| r.terminal.clone()) {
                Some(RTerm::Stopped(c)) if c == code => {}
                other => viol(&self.unchecked, w, inc, "stop-code-mismatch", format!("inc{} stream {} reported Stopped({}) but the peer application's state is {:?}", inc, sid, code, other)),
            }
        }
    }

    fn react_stopped(&mut self, w: &mut World, inc: u32, sid: u64, code: u64) {
        let st = self.sides.get_mut(&inc).unwrap().sends.get_mut(&sid).unwrap();
        if matches!(st.state, SState::Writing | SState::FinishCalled) {
            let r = w.conn_mut(inc).send_stream(sid_from(sid)).reset(VarInt::from_u64(code).unwrap());
            let st = self.sides.get_mut(&inc).unwrap().sends.get_mut(&sid).unwrap();
            if r.is_ok() {
                st.reset_code = Some(code);
                st.state = SState::StoppedReset(code);
            } else if self.cfg.strict_api {
                viol(&self.unchecked, w, inc, "reset-after-stop-refused", format!("inc{} stream {} reset() after Stopped returned ClosedStream in state {:?}", inc, sid, st.state));
            }
        }
    }

    /// Start the application before the handshake completes (0-RTT).
    pub fn kick_early(&mut self, w: &mut World, inc: u32) {
        self.sides.get_mut(&inc).unwrap().early = true;
        self.kick(w, inc);
        let s = self.sides.get_mut(&inc).unwrap();
        s.early_streams = s.sends.len() as u32;
    }

    /// `Connected` arrived and the server did not accept early data: every early stream must
    /// report that it is gone, and the application starts over as on a fresh connection.
    fn early_rejected(&mut self, w: &mut World, inc: u32) {
        let sends: Vec<u64> = self.sides[&inc].sends.keys().copied().collect();
        let recvs: Vec<u64> = self.sides[&inc].recvs.keys().copied().collect();
        for sid in sends {
            let r = w.conn_mut(inc).send_stream(sid_from(sid)).write(&[0x5a]);
            if !matches!(r, Err(WriteError::ClosedStream)) {
                viol(&self.unchecked, w, inc, "early-stream-usable-after-rejection", format!("inc{} 0-RTT was rejected but write() on early stream {} returned {:?}", inc, sid, r));
                return;
            }
        }
        for sid in recvs {
            let mut rs = w.conn_mut(inc).recv_stream(sid_from(sid));
            let r = rs.read(true).map(|_| ());
            if !matches!(r, Err(ReadableError::ClosedStream)) {
                viol(&self.unchecked, w, inc, "early-stream-usable-after-rejection", format!("inc{} 0-RTT was rejected but read() on early stream {} returned {:?}", inc, sid, r));
                return;
            }
        }
        w.probes.hit("early_rejected_with_streams");
        let s = self.sides.get_mut(&inc).unwrap();
        s.early_bytes_rejected = s.sends.values().map(|st| st.written).sum();
        s.sends.clear();
        s.recvs.clear();
        s.next_plan = 0;
        s.open_blocked = [false; 2];
        s.opened_count = [0; 2];
        s.epoch = 1;
    }

    /// initial attempt once connected (or for 0-RTT, once the connection exists)
    pub fn kick(&mut self, w: &mut World, inc: u32) {
        self.open_more(w, inc);
    }

    pub fn open_more(&mut self, w: &mut World, inc: u32) {
        loop {
            let s = self.sides.get_mut(&inc).unwrap();
            if s.next_plan >= s.plans.len() || s.lost.is_some() || s.closed_locally {
                return;
            }
            // no head-of-line blocking between directions: take the first plan whose
            // direction is not known to be blocked
            let Some(pi) = (s.next_plan..s.plans.len()).find(|&i| !s.open_blocked[s.plans[i].dir as usize]) else { return };
            s.plans.swap(s.next_plan, pi);
            let plan = s.plans[s.next_plan].clone();
            let r = w.conn_mut(inc).streams().open(plan.dir);
            let step = w.step;
            w.trace_item(|| format!("open inc={} {:?} -> {:?}", inc, plan.dir, r), crate::chooser::mix(&[0x09E7, inc as u64, r.map_or(u64::MAX, sid_u64)]));
            let s = self.sides.get_mut(&inc).unwrap();
            match r {
                None => {
                    s.open_blocked[plan.dir as usize] = true;
                    w.probes.hit("open_blocked");
                    return;
                }
                Some(id) => {
                    let sid = sid_u64(id);
                    s.next_plan += 1;
                    let epoch = s.epoch;
                    let expect = s.opened_count[plan.dir as usize];
                    s.opened_count[plan.dir as usize] += 1;
                    if id.index() != expect || id.dir() != plan.dir || id.initiator() != (if s.is_client { Side::Client } else { Side::Server }) {
                        viol(&self.unchecked, w, inc, "open-returned-unexpected-id", format!("inc{} open({:?}) returned stream {} but {} streams of that direction were opened before{}", inc, plan.dir, sid, expect, if epoch == 1 { " since 0-RTT was rejected" } else { "" }));
                        return;
                    }
                    if s.sends.contains_key(&sid) {
                        viol(&self.unchecked, w, inc, "open-returned-duplicate-id", format!("inc{} open returned stream {} twice", inc, sid));
                        return;
                    }
                    s.sends.insert(
                        sid,
                        SendSt {
                            total: plan.total,
                            written: 0,
                            end: plan.end.clone(),
                            chunk: plan.chunk,
                            use_chunks: plan.use_chunks,
                            state: SState::Writing,
                            blocked: false,
                            finish_called_with: None,
                            reset_code: None,
                            stopped_event: None,
                            finished_events: 0,
                            stopped_events: 0,
                            opened_step: step,
                            epoch,
                        },
                    );
                    if plan.dir == Dir::Bi {
                        let rp = self.draw_read_plan(w);
                        self.sides.get_mut(&inc).unwrap().recvs.insert(sid, RecvSt { plan: rp, pos: 0, unordered: false, delivered: Ranges::new(), terminal: None, lazy_pending: false });
                    }
                    if plan.prio != 0 {
                        let _ = w.conn_mut(inc).send_stream(id).set_priority(plan.prio);
                    }
                    self.pump_send(w, inc, sid);
                }
            }
        }
    }

    fn draw_read_plan(&mut self, w: &mut World) -> ReadPlan {
        let mut rp = ReadPlan::default();
        rp.maxlen = *w.ch.pick("app.read.maxlen", &[usize::MAX, 1, 7, 100, 1200, 4096]);
        if w.ch.chance("app.read.unordered", self.cfg.unordered, 1000) {
            rp.unordered_from = Some(w.ch.range_log("app.read.unordered_from", 0, 20_000));
        }
        if w.ch.chance("app.read.lazy", self.cfg.lazy, 1000) {
            rp.lazy_ms = Some(w.ch.range_log("app.read.lazy_ms", 1, 2000));
        }
        if w.ch.chance("app.read.stop", self.cfg.stop, 1000) {
            rp.stop = Some((w.ch.range_log("app.read.stop_at", 0, 20_000), 1 + w.ch.range("app.read.stop_code", 0, 1000)));
        }
        rp
    }

    fn accept_all(&mut self, w: &mut World, inc: u32, dir: Dir) {
        let mut n = 0u64;
        loop {
            n += 1;
            if n > 200_000 {
                w.violate("accept-never-ends", format!("inc{} Streams::accept({:?}) returned more than 200000 streams in a row", inc, dir));
                return;
            }
            let r = w.conn_mut(inc).streams().accept(dir);
            let Some(id) = r else { break };
            let sid = sid_u64(id);
            w.trace_item(|| format!("accept inc={} -> {}", inc, sid), crate::chooser::mix(&[0xACC, inc as u64, sid]));
            let is_client = self.sides[&inc].is_client;
            if id.initiator() == (if is_client { Side::Client } else { Side::Server }) || id.dir() != dir {
                viol(&self.unchecked, w, inc, "accept-returned-wrong-stream", format!("inc{} accept({:?}) returned {}", inc, dir, sid));
                return;
            }
            if self.sides[&inc].recvs.contains_key(&sid) {
                viol(&self.unchecked, w, inc, "accept-returned-duplicate", format!("inc{} accept returned stream {} twice", inc, sid));
                return;
            }
            let rp = self.draw_read_plan(w);
            self.sides.get_mut(&inc).unwrap().recvs.insert(sid, RecvSt { plan: rp, pos: 0, unordered: false, delivered: Ranges::new(), terminal: None, lazy_pending: false });
            if dir == Dir::Bi {
                let cap = self.cfg.resp_max.min(self.sides[&inc].resp_cap);
                let total = if cap > 0 { w.ch.range_log("app.resp.size", 0, cap) } else { 0 };
                let chunk = *w.ch.pick("app.resp.chunk", &[usize::MAX, 1, 50, 1200, 5000]);
                let step = w.step;
                self.sides.get_mut(&inc).unwrap().sends.insert(
                    sid,
                    SendSt {
                        total,
                        written: 0,
                        end: EndPlan::Finish,
                        chunk,
                        use_chunks: false,
                        state: SState::Writing,
                        blocked: false,
                        finish_called_with: None,
                        reset_code: None,
                        stopped_event: None,
                        finished_events: 0,
                        stopped_events: 0,
                        opened_step: step,
                        epoch: 0,
                    },
                );
                self.pump_send(w, inc, sid);
            }
            self.notify_readable(w, inc, sid);
        }
    }

    pub fn pump_send(&mut self, w: &mut World, inc: u32, sid: u64) {
        let epoch = self.sides[&inc].sends.get(&sid).map_or(0, |st| st.epoch) as u64;
        let key = stream_key(WORLD_KEY, self.conn_key(w, inc), self.sides[&inc].is_client, sid | epoch << 62);
        let id = sid_from(sid);
        loop {
            let s = self.sides.get_mut(&inc).unwrap();
            if s.lost.is_some() || s.closed_locally {
                return;
            }
            let st = s.sends.get_mut(&sid).unwrap();
            if st.state != SState::Writing || st.blocked {
                return;
            }
            let limit = match st.end {
                EndPlan::Reset { at, .. } => at.min(st.total),
                _ => st.total,
            };
            if st.written >= limit {
                match st.end.clone() {
                    EndPlan::Finish => {
                        let r = w.conn_mut(inc).send_stream(id).finish();
                        w.trace_item(|| format!("finish inc={} s={} -> {:?}", inc, sid, r), crate::chooser::mix(&[0xF1, inc as u64, sid, r.is_ok() as u64]));
                        let st = self.sides.get_mut(&inc).unwrap().sends.get_mut(&sid).unwrap();
                        match r {
                            Ok(()) => {
                                st.finish_called_with = Some(st.written);
                                st.state = SState::FinishCalled;
                            }
                            Err(FinishError::Stopped(code)) => {
                                let code = code.into_inner();
                                self.check_stop_code(w, inc, sid, code);
                                self.react_stopped(w, inc, sid, code);
                            }
                            Err(FinishError::ClosedStream) => {
                                if self.cfg.strict_api {
                                    viol(&self.unchecked, w, inc, "finish-closed-stream", format!("inc{} stream {} finish() on an open, unfinished stream returned ClosedStream", inc, sid));
                                }
                                st.state = SState::Abandoned;
                            }
                        }
                    }
                    EndPlan::Reset { code, .. } => {
                        let r = w.conn_mut(inc).send_stream(id).reset(VarInt::from_u64(code).unwrap());
                        w.trace_item(|| format!("reset inc={} s={} -> {:?}", inc, sid, r), crate::chooser::mix(&[0x4E5, inc as u64, sid, r.is_ok() as u64]));
                        let st = self.sides.get_mut(&inc).unwrap().sends.get_mut(&sid).unwrap();
                        if r.is_ok() {
                            st.reset_code = Some(code);
                            st.state = SState::ResetCalled(code);
                        } else {
                            if self.cfg.strict_api {
                                viol(&self.unchecked, w, inc, "reset-closed-stream", format!("inc{} stream {} reset() on an open stream returned ClosedStream", inc, sid));
                            }
                            st.state = SState::Abandoned;
                        }
                    }
                    EndPlan::Leave => {
                        return;
                    }
                }
                return;
            }
            let chunk = (st.chunk as u64).max(st.total / 3000 + 1);
            let n = ((limit - st.written).min(chunk)) as usize;
            let mut data = vec![0u8; n];
            pat_fill(key, st.written, &mut data);
            let use_chunks = st.use_chunks;
            let r = if use_chunks {
                // split into up to three Bytes pieces, one of them possibly empty
                let a = n / 3;
                let b = n / 2;
                let whole = Bytes::from(data);
                let mut pieces = [whole.slice(0..a), Bytes::new(), whole.slice(a..b), whole.slice(b..n)];
                w.conn_mut(inc).send_stream(id).write_chunks(&mut pieces).map(|wr| wr.bytes)
            } else {
                w.conn_mut(inc).send_stream(id).write(&data)
            };
            w.trace_item(|| format!("write inc={} s={} n={} -> {:?}", inc, sid, n, r), crate::chooser::mix(&[0x3417E, inc as u64, sid, n as u64, match &r { Ok(k) => *k as u64, Err(WriteError::Blocked) => u64::MAX, Err(_) => u64::MAX - 1 }]));
            let s = self.sides.get_mut(&inc).unwrap();
            let st = s.sends.get_mut(&sid).unwrap();
            match r {
                Ok(k) => {
                    if k == 0 || k > n {
                        viol(&self.unchecked, w, inc, "write-bad-count", format!("inc{} stream {} write of {} bytes returned Ok({})", inc, sid, n, k));
                        return;
                    }
                    st.written += k as u64;
                    s.bytes_written += k as u64;
                }
                Err(WriteError::Blocked) => {
                    st.blocked = true;
                    w.probes.hit("write_blocked");
                    return;
                }
                Err(WriteError::Stopped(code)) => {
                    let code = code.into_inner();
                    self.check_stop_code(w, inc, sid, code);
                    self.react_stopped(w, inc, sid, code);
                    return;
                }
                Err(WriteError::ClosedStream) => {
                    if self.cfg.strict_api {
                        viol(&self.unchecked, w, inc, "write-closed-stream", format!("inc{} stream {} write on an open stream returned ClosedStream", inc, sid));
                    }
                    st.state = SState::Abandoned;
                    return;
                }
            }
        }
    }

    /// a Readable notification (or the accept of a stream): read now, or later if lazy
    pub fn notify_readable(&mut self, w: &mut World, inc: u32, sid: u64) {
        let lazy = self.sides.get(&inc).and_then(|s| s.recvs.get(&sid)).and_then(|r| if r.terminal.is_none() { r.plan.lazy_ms.map(|ms| (ms, r.lazy_pending)) } else { None });
        match lazy {
            Some((_, true)) => {}
            Some((ms, false)) => {
                self.sides.get_mut(&inc).unwrap().recvs.get_mut(&sid).unwrap().lazy_pending = true;
                let idx = self.lazy_q.len() as u64;
                self.lazy_q.push((inc, sid));
                w.wake_in(ms * crate::world::MS, TAG_LAZY + idx);
                w.probes.hit("lazy_read_scheduled");
            }
            None => self.pump_recv(w, inc, sid),
        }
    }

    pub fn on_lazy_wake(&mut self, w: &mut World, idx: u64) {
        let Some(&(inc, sid)) = self.lazy_q.get(idx as usize) else { return };
        if let Some(r) = self.sides.get_mut(&inc).and_then(|s| s.recvs.get_mut(&sid)) {
            r.lazy_pending = false;
        }
        if self.sides.get(&inc).is_some_and(|s| s.lost.is_none() && !s.closed_locally) {
            self.pump_recv(w, inc, sid);
        }
    }

    pub fn pump_recv(&mut self, w: &mut World, inc: u32, sid: u64) {
        let id = sid_from(sid);
        let is_client = self.sides[&inc].is_client;
        let Some(rs) = self.sides.get_mut(&inc).unwrap().recvs.get_mut(&sid) else {
            // Readable for a stream we have not accepted yet: the Opened event will follow/has
            // been handled; nothing to do (reads happen on accept)
            return;
        };
        if rs.terminal.is_some() {
            return;
        }
        if let Some(from) = rs.plan.unordered_from {
            if !rs.unordered && rs.pos >= from {
                rs.unordered = true;
            }
        }
        let ordered = !rs.unordered;
        let maxlen = rs.plan.maxlen;
        let stop = rs.plan.stop;
        let pos0 = rs.pos;
        // collect
        let mut got: Vec<(u64, Bytes)> = Vec::new();
        let mut term: Option<Result<(), u64>> = None; // Ok = end, Err(code) = reset
        let mut open_err: Option<ReadableError> = None;
        let mut stop_now = false;
        {
            let conn = w.conn_mut(inc);
            let mut rstream = conn.recv_stream(id);
            let res = rstream.read(ordered);
            match res {
                Err(e) => open_err = Some(e),
                Ok(mut chunks) => {
                    let mut read_total = pos0;
                    loop {
                        if let Some((at, _)) = stop {
                            if read_total >= at && term.is_none() {
                                stop_now = true;
                                break;
                            }
                        }
                        match chunks.next(maxlen) {
                            Ok(Some(c)) => {
                                read_total += c.bytes.len() as u64;
                                got.push((c.offset, c.bytes));
                            }
                            Ok(None) => {
                                term = Some(Ok(()));
                                break;
                            }
                            Err(ReadError::Blocked) => break,
                            Err(ReadError::Reset(code)) => {
                                term = Some(Err(code.into_inner()));
                                break;
                            }
                        }
                    }
                    let _ = chunks.finalize();
                }
            }
        }
        if let Some(e) = open_err {
            w.trace_item(|| format!("read inc={} s={} -> {:?}", inc, sid, e), crate::chooser::mix(&[0x4EAD, inc as u64, sid, 1]));
            if self.cfg.strict_api {
                viol(&self.unchecked, w, inc, "read-refused-on-open-stream", format!("inc{} stream {} read({}) returned {:?} before any terminal outcome", inc, sid, if ordered { "ordered" } else { "unordered" }, e));
            }
            return;
        }
        // verify
        let peer = self.peer(w, inc);
        let ledger = if peer != NO_INC { self.sides.get(&peer).and_then(|p| p.sends.get(&sid)).cloned() } else { None };
        let key = stream_key(WORLD_KEY, self.conn_key(w, inc), !is_client, sid | (ledger.as_ref().map_or(0, |l| l.epoch) as u64) << 62);
        let check = self.cfg.check_data && peer != NO_INC && self.sides.contains_key(&peer) && !self.unchecked.contains(&self.conn_key(w, inc));
        for (off, bytes) in &got {
            let len = bytes.len() as u64;
            w.trace_item(|| format!("read inc={} s={} off={} len={}", inc, sid, off, len), crate::chooser::mix(&[0x4EAD, inc as u64, sid, *off, len]));
            let rs = self.sides.get_mut(&inc).unwrap().recvs.get_mut(&sid).unwrap();
            if len == 0 {
                viol(&self.unchecked, w, inc, "empty-chunk", format!("inc{} stream {} read returned an empty chunk at {}", inc, sid, off));
                return;
            }
            if len as usize > maxlen {
                viol(&self.unchecked, w, inc, "chunk-exceeds-max-length", format!("inc{} stream {} chunk of {} bytes with max_length {}", inc, sid, len, maxlen));
                return;
            }
            if ordered && *off != rs.pos {
                viol(&self.unchecked, w, inc, "ordered-read-gap", format!("inc{} stream {} ordered read returned offset {} but {} bytes were read before", inc, sid, off, rs.pos));
                return;
            }
            if rs.delivered.overlaps(*off, off + len) {
                viol(&self.unchecked, w, inc, "duplicate-delivery", format!("inc{} stream {} bytes [{}, {}) delivered twice (already delivered: {:?})", inc, sid, off, off + len, rs.delivered.v));
                return;
            }
            rs.delivered.insert(*off, off + len);
            rs.pos += len;
            self.sides.get_mut(&inc).unwrap().bytes_read += len;
            if check {
                match &ledger {
                    None => {
                        viol(&self.unchecked, w, inc, "data-on-unopened-stream", format!("inc{} read {} bytes on stream {} that the peer application never opened", inc, len, sid));
                        return;
                    }
                    Some(l) => {
                        if off + len > l.written {
                            viol(&self.unchecked, w, inc, "bytes-never-written", format!("inc{} stream {} delivered [{}, {}) but the sender wrote only {} bytes", inc, sid, off, off + len, l.written));
                            return;
                        }
                    }
                }
                if let Some(i) = pat_check(key, *off, bytes) {
                    viol(&self.unchecked, w, inc, "data-mismatch", format!("inc{} stream {} byte at offset {} differs from what was written", inc, sid, off + i as u64));
                    return;
                }
            }
        }
        if let Some(t) = term {
            let rs = self.sides.get_mut(&inc).unwrap().recvs.get_mut(&sid).unwrap();
            match t {
                Ok(()) => {
                    w.trace_item(|| format!("read inc={} s={} END", inc, sid), crate::chooser::mix(&[0x4EAD, inc as u64, sid, 0xE0F]));
                    rs.terminal = Some(RTerm::End);
                    if check {
                        match &ledger {
                            Some(l) => match l.finish_called_with {
                                None => viol(&self.unchecked, w, inc, "end-without-finish", format!("inc{} stream {} reported end of stream but the sender never called finish()", inc, sid)),
                                Some(fin) => {
                                    if !rs.delivered.is_prefix(fin) {
                                        viol(&self.unchecked, w, inc, "end-before-all-data", format!("inc{} stream {} reported end of stream after delivering {:?} but {} bytes were written before finish()", inc, sid, rs.delivered.v, fin));
                                    }
                                }
                            },
                            None => viol(&self.unchecked, w, inc, "end-on-unopened-stream", format!("inc{} stream {} end of stream on a stream the peer never opened", inc, sid)),
                        }
                    }
                }
                Err(code) => {
                    w.trace_item(|| format!("read inc={} s={} RESET {}", inc, sid, code), crate::chooser::mix(&[0x4EAD, inc as u64, sid, 0x4E5E7, code]));
                    rs.terminal = Some(RTerm::Reset(code));
                    if check {
                        match &ledger {
                            Some(l) if l.reset_code == Some(code) => {}
                            Some(l) => viol(&self.unchecked, w, inc, "reset-code-mismatch", format!("inc{} stream {} reported Reset({}) but the sender's reset code is {:?}", inc, sid, code, l.reset_code)),
                            None => viol(&self.unchecked, w, inc, "reset-on-unopened-stream", format!("inc{} stream {} reset on a stream the peer never opened", inc, sid)),
                        }
                    }
                }
            }
            return;
        }
        if stop_now {
            let code = stop.unwrap().1;
            let r = w.conn_mut(inc).recv_stream(id).stop(VarInt::from_u64(code).unwrap());
            w.trace_item(|| format!("stop inc={} s={} -> {:?}", inc, sid, r), crate::chooser::mix(&[0x5709, inc as u64, sid, r.is_ok() as u64]));
            let rs = self.sides.get_mut(&inc).unwrap().recvs.get_mut(&sid).unwrap();
            if r.is_ok() {
                rs.terminal = Some(RTerm::Stopped(code));
                w.probes.hit("app_stop");
            } else if self.cfg.strict_api {
                viol(&self.unchecked, w, inc, "stop-refused-on-open-stream", format!("inc{} stream {} stop() returned ClosedStream before any terminal outcome", inc, sid));
            }
        }
    }

    /// Is everything that was planned done? (used as the "workload complete" predicate)
    pub fn complete(&self, w: &World) -> bool {
        self.incomplete_reason(w).is_none()
    }

    pub fn incomplete_reason(&self, w: &World) -> Option<String> {
        for (inc, s) in &self.sides {
            if s.lost.is_some() || s.closed_locally {
                continue;
            }
            // connections attacked by a hostile peer are not expected to complete anything
            let key = if s.is_client { *inc } else { w.conns[*inc as usize].peer };
            if self.unchecked.contains(&key) {
                continue;
            }
            let peer = w.conns[*inc as usize].peer;
            let peer_side = if peer != NO_INC { self.sides.get(&peer) } else { None };
            let peer_gone = peer_side.is_some_and(|p| p.lost.is_some() || p.closed_locally);
            if peer_gone {
                // whatever this side still wanted to do can legitimately never happen
                continue;
            }
            if !s.connected {
                return Some(format!("inc{} not connected", inc));
            }
            if s.next_plan < s.plans.len() {
                return Some(format!("inc{} opened {}/{} planned streams", inc, s.next_plan, s.plans.len()));
            }
            for (sid, st) in &s.sends {
                match st.state {
                    SState::Writing => {
                        if st.end != EndPlan::Leave || st.written < st.total {
                            return Some(format!("inc{} stream {} still writing ({}/{} blocked={})", inc, sid, st.written, st.total, st.blocked));
                        }
                    }
                    SState::FinishCalled => return Some(format!("inc{} stream {} finish() not yet acknowledged (no Finished/Stopped event)", inc, sid)),
                    SState::Finished | SState::ResetCalled(_) | SState::StoppedReset(_) | SState::Abandoned => {}
                }
                if peer_gone {
                    continue;
                }
                // the receiving application must have reached a terminal outcome as well
                if matches!(st.state, SState::Finished | SState::ResetCalled(_) | SState::StoppedReset(_)) {
                    match peer_side.and_then(|p| p.recvs.get(sid)) {
                        Some(r) if r.terminal.is_some() => {}
                        Some(r) => return Some(format!("inc{} stream {}: receiver has read {} bytes, no terminal outcome yet (sender state {:?})", inc, sid, r.pos, st.state)),
                        None => {
                            if peer_side.is_some() {
                                return Some(format!("inc{} stream {}: receiver application has not seen the stream (sender state {:?})", inc, sid, st.state));
                            }
                        }
                    }
                }
            }
        }
        None
    }

    pub fn mark_closed(&mut self, inc: u32) {
        if let Some(s) = self.sides.get_mut(&inc) {
            s.closed_locally = true;
            for st in s.sends.values_mut() {
                if matches!(st.state, SState::Writing | SState::FinishCalled) {
                    st.state = SState::Abandoned;
                }
            }
        }
    }

    /// End-of-run data check on connections that were never closed: everything that was
    /// finished must have been delivered completely (C01's completion clause).
    pub fn final_delivery_check(&self, w: &mut World) {
        if let Some(r) = self.incomplete_reason(w) {
            w.violate("workload-incomplete", r);
        }
    }
}

/// `budget`: total bytes this side may plan (feasibility under tiny windows); `dirs`: which
/// directions the peer allows at all (bidi, uni)
const ALWAYS: &[&str] = &["ordered-read-gap", "duplicate-delivery", "empty-chunk", "chunk-exceeds-max-length", "write-bad-count", "open-returned-duplicate-id", "accept-returned-wrong-stream", "accept-returned-duplicate", "finished-twice", "stopped-twice", "finished-without-finish"];

/// report a workload-level violation unless the connection is being attacked by a hostile peer
/// (then only the guarantees that hold against any peer are kept)
fn viol(unchecked: &std::collections::BTreeSet<u32>, w: &mut World, inc: u32, kind: &str, detail: String) {
    let c = &w.conns[inc as usize];
    let key = if c.side == Side::Client { inc } else { c.peer };
    if unchecked.contains(&key) && !ALWAYS.contains(&kind) {
        return;
    }
    w.violate(kind, detail);
}

pub fn draw_plans(w: &mut World, n_max: u32, size_max: u64, reset: u32, leave: u32, budget: u64, dirs: (bool, bool)) -> Vec<StreamPlan> {
    if !dirs.0 && !dirs.1 {
        return Vec::new();
    }
    let n = w.ch.range("plan.n", 1, n_max as u64) as usize;
    let size_max = size_max.min(budget / n as u64);
    let mut v = Vec::with_capacity(n);
    for _ in 0..n {
        let mut dir = if w.ch.chance("plan.uni", 1, 2) { Dir::Uni } else { Dir::Bi };
        if dir == Dir::Uni && !dirs.1 {
            dir = Dir::Bi;
        } else if dir == Dir::Bi && !dirs.0 {
            dir = Dir::Uni;
        }
        let total = w.ch.range_log("plan.size", 0, size_max);
        let end = if w.ch.chance("plan.reset", reset, 1000) {
            EndPlan::Reset { at: w.ch.range_log("plan.reset_at", 0, total), code: 1 + w.ch.range("plan.reset_code", 0, 1 << 20) }
        } else if w.ch.chance("plan.leave", leave, 1000) {
            EndPlan::Leave
        } else {
            EndPlan::Finish
        };
        let chunk = *w.ch.pick("plan.chunk", &[usize::MAX, 1, 10, 100, 1200, 5000, 70_000]);
        let use_chunks = w.ch.chance("plan.use_chunks", 1, 4);
        let prio = *w.ch.pick("plan.prio", &[0i32, 0, 0, 1, -1, 5]);
        v.push(StreamPlan { dir, total, end, chunk, use_chunks, prio });
    }
    v
}
